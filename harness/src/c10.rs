//! C10 — server identity is a pure function of the seed and certifies every online key.
//! C11 — signed midpoint is the server clock in the protocol's unit with a 5 s radius.

use std::panic::{catch_unwind, AssertUnwindSafe};
use std::time::{Duration, SystemTime, UNIX_EPOCH};

use roughenough::key::{LongTermKey, OnlineKey};
use roughenough::version::Version;
use serde_json::json;

use crate::driver::*;
use crate::inproc::{reply_proto, take_panics, HConfig, Inproc};
use crate::out::{Ctx, Out};
use crate::prng::{fnv64, hex, Rng};
use crate::refimpl::codec::*;
use crate::refimpl::crypto::*;
use crate::refimpl::verify::cert_verifies;

fn structured_seed(rng: &mut Rng, k: u64) -> Vec<u8> {
    match k % 8 {
        0 => vec![0u8; 32],
        1 => vec![0xff; 32],
        2 => {
            let mut s = vec![0u8; 32];
            s[rng.usize_below(32)] = 1 << rng.below(8);
            s
        }
        3 => vec![rng.below(256) as u8; 32],
        _ => rng.bytes(32),
    }
}

fn api_identity(out: &mut Out, rng: &mut Rng, k: u64) {
    let seed = structured_seed(rng, k);
    let refk = RefKey::from_seed(&seed);
    let want_pk = refk.public();
    let want_srv = srv_value(&want_pk);
    let desc = json!({"kind":"identity","seed":hex(&seed)});
    let r = catch_unwind(AssertUnwindSafe(|| {
        let a = LongTermKey::new(&seed);
        let b = LongTermKey::new(&seed);
        out.obs("seeds_checked", 1);
        if a.public_key() != want_pk {
            out.violation("C10 public-key differs-from-rfc8032", &format!("seed {}: {} vs reference {}", hex(&seed), hex(&a.public_key()), hex(&want_pk)), desc.clone());
        }
        if a.srv_value()[..] != want_srv[..] || LongTermKey::calc_srv_value(&want_pk) != want_srv {
            out.violation("C10 srv-value differs", &format!("SRV {} vs SHA-512(0xff||pk)[0..32] {}", hex(&a.srv_value()[..]), hex(&want_srv)), desc.clone());
        }
        if a.public_key() != b.public_key() || a.srv_value()[..] != b.srv_value()[..] {
            out.violation("C10 identity not-deterministic", "two constructions from one seed differ", desc.clone());
        }
        // one online key certified for both protocols, in both orders, repeatedly: every
        // certificate must carry a signature under its own protocol's context
        let mut lt = a;
        for order in [[Version::Google, Version::RfcDraft13, Version::Google], [Version::RfcDraft13, Version::Google, Version::RfcDraft13]] {
            let ok = OnlineKey::new();
            for ver in order {
                let p = if ver == Version::Google { Proto::Classic } else { Proto::Ietf };
                let cert = lt.make_cert(&ver, &ok).encode().unwrap();
                out.obs("api_certs_checked", 1);
                out.obs("api_certs_same_online_key_both_protocols", 1);
                check_cert(out, &cert, &want_pk, p, None, "api-same-online-key", &desc);
            }
        }
        // certificates for fresh online keys, both protocols
        for (ver, p) in [(Version::Google, Proto::Classic), (Version::RfcDraft13, Proto::Ietf)] {
            for _ in 0..2 {
                let ok = OnlineKey::new();
                let cert = lt.make_cert(&ver, &ok).encode().unwrap();
                out.obs("api_certs_checked", 1);
                check_cert(out, &cert, &want_pk, p, None, "api", &desc);
            }
        }
    }));
    out.case(fnv64(&seed), true);
    if r.is_err() {
        let p = take_panics().join(" | ");
        out.violation(&format!("C10 panic {}", crate::c05::panic_site(&p)), &p, desc);
    }
    let e = out.extra.entry("pyref_samples").or_insert_with(|| json!([]));
    if e.as_array().unwrap().len() < 3 {
        e.as_array_mut().unwrap().push(json!({"seed": hex(&seed), "pk": hex(&want_pk), "srv": hex(&want_srv)}));
    }
}

/// CERT: delegation signed by `pk` under `p`'s context, never under the other's; window
/// contains `midp` when given
pub fn check_cert(out: &mut Out, cert: &[u8], pk: &[u8], p: Proto, midp: Option<u64>, origin: &str, desc: &serde_json::Value) {
    if !cert_verifies(cert, pk, p) {
        out.violation(&format!("C10 cert not-signed-by-long-term-key proto={} origin={}", p.name(), origin), "CERT does not verify under the reference-derived public key with this protocol's delegation context", desc.clone());
        return;
    }
    if cert_verifies(cert, pk, p.other()) {
        out.violation(&format!("C10 cert verifies-under-other-context proto={}", p.name()), "CERT also verifies under the other protocol's delegation context", desc.clone());
    }
    let c = RefMsg::decode(cert).unwrap();
    let dele = RefMsg::decode(c.get(DELE).unwrap());
    match dele {
        Ok(d) => {
            let (Some(pubk), Some(mint), Some(maxt)) = (d.get(PUBK), d.get(MINT), d.get(MAXT)) else {
                out.violation("C10 cert dele-fields-missing", "DELE lacks PUBK/MINT/MAXT", desc.clone());
                return;
            };
            if pubk.len() != 32 || mint.len() != 8 || maxt.len() != 8 {
                out.violation("C10 cert dele-field-sizes", "DELE field sizes", desc.clone());
                return;
            }
            let mint = u64::from_le_bytes(mint.try_into().unwrap());
            let maxt = u64::from_le_bytes(maxt.try_into().unwrap());
            if let Some(m) = midp {
                if m < mint || m > maxt {
                    out.violation("C10 cert window-excludes-midpoint", &format!("MIDP {} outside [{}, {}]", m, mint, maxt), desc.clone());
                }
            }
        }
        Err(_) => out.violation("C10 cert dele-undecodable", "DELE does not decode", desc.clone()),
    }
}

/// one seed, several "restarts" x several concurrently living server instances
fn restarts(out: &mut Out, rng: &mut Rng, k: u64, nrestarts: usize, ninst: usize) {
    let seed = rng.bytes(32);
    let pk = RefKey::from_seed(&seed).public();
    let desc = json!({"kind":"restarts","seed":hex(&seed),"restarts":nrestarts,"instances":ninst});
    let mut online_keys = std::collections::HashSet::new();
    for r in 0..nrestarts {
        let mut drivers = Vec::new();
        for i in 0..ninst {
            let mut cfg = HConfig::new(&seed);
            cfg.batch_size = *rng.pick(&[1u8, 4, 64]);
            // the last instance of every restart injects faults: its certificates must be genuine all the same
            if i + 1 == ninst && ninst > 1 {
                cfg.fault_percentage = 50;
            }
            match Driver::new(cfg, 4) {
                Ok(d) => drivers.push(d),
                Err(e) => out.inconclusive(&format!("server start failed: {}", e)),
            }
        }
        for d in drivers.iter_mut() {
            out.obs("server_instances", 1);
            if d.srv.pubkey_hex != hex(&pk) {
                out.violation("C10 announced-public-key differs", &format!("Server::get_public_key() = {} but RFC 8032 public key of the seed is {}", d.srv.pubkey_hex, hex(&pk)), desc.clone());
            }
            let srv = d.srv_value.clone();
            // socket 1 always carries the reference-computed SRV: the server's own commitment value is
            // observable through whether that request is answered
            let with_srv = crate::refimpl::req::ietf_request(&[DRAFT13], Some(&srv), &rng.bytes(32), 1024);
            let prefix_srv = crate::refimpl::req::ietf_request(&[DRAFT13], Some(&srv[..16]), &rng.bytes(32), 1024);
            let longer: Vec<u8> = [&srv[..], &[0u8; 4][..]].concat();
            let longer_srv = crate::refimpl::req::ietf_request(&[DRAFT13], Some(&longer), &rng.bytes(32), 1024);
            d.ensure_socks(6);
            let sends = vec![(0, valid_classic(rng).data), (1, with_srv), (2, valid_classic(rng).data), (3, valid_ietf(rng, None).data), (4, prefix_srv), (5, longer_srv)];
            let round = d.round(sends, true);
            if round.panic.is_some() {
                out.inconclusive("server panicked (C08's verdict)");
                continue;
            }
            let answered = |sock: usize| round.replies.iter().any(|r| r.sock == sock && r.matched.is_some());
            out.obs("srv_commitment_probes", 1);
            let any_reply = |sock: usize| round.replies.iter().any(|r| r.sock == sock);
            if any_reply(4) || any_reply(5) {
                out.violation(
                    "C10 server-srv-value matched-by-other-length",
                    "a request whose SRV is a 16-byte prefix of (or 4 bytes longer than) SHA-512(0xff || pk)[0..32] was answered: the server's commitment value is not compared as that exact 32-byte value",
                    desc.clone(),
                );
            }
            if d.cfg.fault_percentage == 0 && !answered(1) && answered(3) && !round.drops_moved {
                out.violation(
                    "C10 server-srv-value differs (request naming SHA-512(0xff||pk)[0..32] unanswered)",
                    "an IETF request carrying SRV = first 32 bytes of SHA-512(0xff || public key) got no reply while the same request without SRV was answered: the server's commitment value is not that value",
                    desc.clone(),
                );
            }
            for rep in &round.replies {
                let p = reply_proto(&rep.data);
                // take CERT out of the reply with the reference codec, whether or not it verified
                let payload = if p == Proto::Ietf { unframe(&rep.data).unwrap_or(&[]) } else { &rep.data[..] };
                // deliberately faulty replies may have their tags shuffled: read them leniently
                let parsed = if d.cfg.fault_percentage > 0 { crate::refimpl::verify::lenient(payload).map_err(|_| ()) } else { RefMsg::decode(payload).map_err(|_| ()) };
                let Ok(m) = parsed else {
                    out.violation("C10 reply undecodable", "reply does not decode", desc.clone());
                    continue;
                };
                if d.cfg.fault_percentage > 0 {
                    out.obs("certs_from_fault_injecting_instances", 1);
                }
                let Some(cert) = m.get(CERT) else {
                    out.violation("C10 reply lacks-CERT", "reply without CERT", desc.clone());
                    continue;
                };
                let midp = m.get(SREP).and_then(|s| RefMsg::decode(s).ok()).and_then(|s| s.get(MIDP).map(|b| u64::from_le_bytes(b.try_into().unwrap_or([0; 8]))));
                out.obs("certs_from_replies", 1);
                out.obs(&format!("certs_from_replies_{}", p.name()), 1);
                check_cert(out, cert, &pk, p, midp, "reply", &desc);
                if let Some(v) = &rep.verified {
                    online_keys.insert(v.online_pk.clone());
                }
            }
        }
        let _ = r;
    }
    out.obs("distinct_online_keys_certified", online_keys.len() as i64);
    out.case(fnv64(&seed) ^ k, true);
    if out.samples.len() < 2 {
        out.sample(json!({"seed": "<random>", "restarts": nrestarts, "instances_per_restart": ninst, "online_keys_seen": online_keys.len(), "public_key": hex(&pk)}));
    }
}

pub fn run_c10(ctx: &Ctx, out: &mut Out) {
    let mut rng = ctx.rng("C10");
    crate::inproc::install_shard_logger(ctx.shard, out);
    if let Some(r) = &ctx.replay {
        out.case(1, true);
        out.case(2, true);
        if r["kind"] == "identity" {
            let seed = crate::prng::unhex(r["seed"].as_str().unwrap()).unwrap();
            let refk = RefKey::from_seed(&seed);
            let a = LongTermKey::new(&seed);
            if a.public_key() != refk.public() {
                out.violation("C10 public-key differs-from-rfc8032", "replayed", r.clone());
            }
            if a.srv_value()[..] != srv_value(&refk.public())[..] {
                out.violation("C10 srv-value differs", "replayed", r.clone());
            }
        } else {
            restarts(out, &mut rng, 0, 3, 2);
        }
        return;
    }
    for i in 0..ctx.share(40_000, 2_000_000) {
        api_identity(out, &mut rng, i);
        if i % 64 == 0 && !ctx.time_left() {
            break;
        }
    }
    for i in 0..ctx.share(320, 16_000) {
        let nr = rng.range(3, 10) as usize;
        let ni = rng.range(1, if ctx.thorough { 16 } else { 4 }) as usize;
        restarts(out, &mut rng, i, nr, ni);
        if !ctx.time_left() {
            out.note("restart loop cut by wall budget");
            break;
        }
    }
    real_binary_restarts(ctx, out, &mut rng);
    out.floor("real_binary_starts", 4);
    out.floor("seeds_checked", 5_000);
    out.floor("api_certs_checked", 5_000);
    out.floor("server_instances", 100);
    out.floor("srv_commitment_probes", 100);
    out.floor("certs_from_replies_classic", 100);
    out.floor("certs_from_replies_ietf", 100);
}

/// the real server binary restarted several times with one seed, over both configuration sources
fn real_binary_restarts(ctx: &Ctx, out: &mut Out, rng: &mut Rng) {
    use crate::procs::*;
    if ctx.shard >= 4 && !ctx.thorough {
        return;
    }
    // seed texts that a configuration parser may type as something other than a string: all
    // decimal digits (with and without leading zeros), digits with one 'e' (a float to YAML)
    let mut seed = rng.bytes(32);
    let shape = ["random", "all-decimal-digits", "decimal-leading-zeros", "decimal-with-exponent"][(ctx.shard % 4) as usize];
    match shape {
        "all-decimal-digits" => {
            for b in seed.iter_mut() {
                *b = ((rng.below(10) as u8) << 4) | rng.below(10) as u8;
            }
            seed[0] = ((rng.range(1, 9) as u8) << 4) | rng.below(10) as u8;
        }
        "decimal-leading-zeros" => {
            for b in seed.iter_mut() {
                *b = ((rng.below(10) as u8) << 4) | rng.below(10) as u8;
            }
            seed[0] = 0;
            seed[1] = rng.below(10) as u8;
        }
        "decimal-with-exponent" => {
            for b in seed.iter_mut() {
                *b = ((rng.below(10) as u8) << 4) | rng.below(10) as u8;
            }
            seed[0] = ((rng.range(1, 9) as u8) << 4) | rng.below(10) as u8;
            seed[1] = 0xe0 | rng.below(10) as u8;
        }
        _ => {}
    }
    out.obs(&format!("real_binary_seed_shape_{}", shape), 1);
    let pk = RefKey::from_seed(&seed).public();
    let desc = json!({"kind":"real-restarts","seed":hex(&seed),"seed_shape":shape});
    let starts = if ctx.thorough { 20 } else { 3 };
    let mut online = std::collections::HashSet::new();
    for k in 0..starts {
        let mut cfg = SrvCfg::new(free_port(false), &seed);
        cfg.num_workers = Some(*rng.pick(&[1u32, 2, 4]));
        cfg.via_env = k % 2 == 1;
        // the first start of each shard runs under the clock shim: after the first probes its wall
        // clock is stepped forward (a server that has been up for minutes, a month, a year)
        let shim = ctx.bins.join("clockshim.so");
        let off_file = ctx.scratch.join(format!("c10-clock-offset-{}", ctx.shard));
        let stepped = k == 0 && shim.exists();
        if stepped {
            std::fs::create_dir_all(&ctx.scratch).ok();
            let _ = std::fs::write(&off_file, "0");
            cfg.extra_env = vec![("LD_PRELOAD".into(), shim.display().to_string()), ("RTVERIF_CLOCK_OFFSET_FILE".into(), off_file.display().to_string())];
        }
        let Ok(mut sp) = spawn_server(&ctx.bins, &cfg, &ctx.scratch, &format!("c10r{}", k), None) else {
            out.inconclusive("spawn failed");
            continue;
        };
        let ready = sp.wait_ready(&pk, std::time::Duration::from_secs(10));
        // the announced key in the start-up log (looked at whether or not replies verify under
        // the expected key: a server that came up under another identity is not "not ready")
        let announced = sp.output().lines().find(|l| l.contains("Long-term public key")).map(|l| l.rsplit(':').next().unwrap_or("").trim().to_string());
        if let Some(a) = announced {
            out.obs("real_binary_announced_keys_compared", 1);
            if a != hex(&pk) {
                out.violation(
                    &format!("C10 announced-public-key differs origin=real-binary seed-shape={} source={}", shape, if cfg.via_env { "ENV" } else { "file" }),
                    &format!("start-up log announces {} but the RFC 8032 key of the seed is {}", a, hex(&pk)),
                    desc.clone(),
                );
            }
        }
        if ready.is_err() {
            // readiness itself verifies a reply under the reference key: not ready = C15's / C16's business
            out.inconclusive("real server not ready");
            continue;
        }
        out.obs("real_binary_starts", 1);
        let nprobes = if stepped { 88 } else { 40 };
        for i in 0..nprobes {
            if stepped && i >= 40 && i % 12 == 4 {
                let off: u64 = [61, 3_600, 86_400 * 30, 86_400 * 399][(i - 40) / 12];
                let _ = std::fs::write(&off_file, off.to_string());
                std::thread::sleep(std::time::Duration::from_millis(5));
                out.obs("real_binary_clock_steps", 1);
            }
            let p = if i % 2 == 0 { Proto::Classic } else { Proto::Ietf };
            let s = std::net::UdpSocket::bind("127.0.0.1:0").unwrap();
            let sv = srv_value(&pk);
            let (pkt, nonce) = make_request(rng, p, if i % 4 == 1 { Some(&sv) } else { None });
            let addr: std::net::SocketAddr = format!("127.0.0.1:{}", sp.cfg.port).parse().unwrap();
            s.set_read_timeout(Some(std::time::Duration::from_millis(1500))).unwrap();
            let _ = s.send_to(&pkt, addr);
            let mut buf = vec![0u8; 4096];
            let Ok((n, _)) = s.recv_from(&mut buf) else {
                out.inconclusive("real server probe unanswered");
                continue;
            };
            let payload = if p == Proto::Ietf { unframe(&buf[..n]).unwrap_or(&[]) } else { &buf[..n] };
            let Ok(m) = RefMsg::decode(payload) else { continue };
            let Some(cert) = m.get(CERT) else { continue };
            let midp = m.get(SREP).and_then(|s| RefMsg::decode(s).ok()).and_then(|s| s.get(MIDP).map(|b| u64::from_le_bytes(b.try_into().unwrap_or([0; 8]))));
            out.obs("certs_from_real_binary", 1);
            if stepped && i >= 44 {
                out.obs("certs_from_real_binary_after_clock_step", 1);
            }
            check_cert(out, cert, &pk, p, midp, "real-binary", &desc);
            let view = crate::refimpl::verify::ReqView { proto: p, packet: &pkt, nonce };
            if let Ok(v) = crate::refimpl::verify::verify_response(&view, &buf[..n], &pk, crate::refimpl::verify::Opts { strict: true }) {
                online.insert(v.online_pk);
            }
        }
        sp.signal(libc::SIGTERM);
        if sp.wait_exit(std::time::Duration::from_secs(10)).is_none() {
            sp.kill();
        }
    }
    out.obs("distinct_online_keys_certified_real_binary", online.len() as i64);
    out.case(fnv64(&seed) ^ 0x10, true);
}

// ------------------------------------------------------------------------------------ C11

fn floor_unit(t: SystemTime, p: Proto) -> u64 {
    let d = t.duration_since(UNIX_EPOCH).unwrap();
    match p {
        Proto::Classic => d.as_secs() * 1_000_000 + (d.subsec_nanos() / 1000) as u64,
        Proto::Ietf => d.as_secs(),
    }
}

fn api_midpoint(out: &mut Out, secs: u64, nanos: u32, key: &mut OnlineKey) {
    let t = UNIX_EPOCH + Duration::new(secs, nanos);
    for (ver, p) in [(Version::Google, Proto::Classic), (Version::RfcDraft13, Proto::Ietf)] {
        // the unit follows the version, not the shape of the root handed in: the root's width is
        // varied (own width / 32 / 64 bytes), derived from the clock value so that a replay repeats it
        let root_len = match (secs ^ nanos as u64) % 3 {
            0 => p.width(),
            1 => 32,
            _ => 64,
        };
        out.obs(&format!("make_srep_root_len_{}_proto_{}", root_len, p.name()), 1);
        let desc = json!({"kind":"midpoint","secs":secs,"nanos":nanos,"proto":p.name(),"root_len":root_len});
        let r = catch_unwind(AssertUnwindSafe(|| key.make_srep(ver, t, &vec![7u8; root_len])));
        out.obs("clock_values_checked", 1);
        let msg = match r {
            Ok(m) => m,
            Err(_) => {
                let pn = take_panics().join(" | ");
                out.violation(&format!("C11 make_srep panic {} proto={}", crate::c05::panic_site(&pn), p.name()), &pn, desc);
                continue;
            }
        };
        let enc = msg.encode().unwrap();
        let top = RefMsg::decode(&enc).unwrap();
        let Some(srep) = top.get(SREP).and_then(|s| RefMsg::decode(s).ok()) else {
            out.violation("C11 srep undecodable", "make_srep output lacks a decodable SREP", desc);
            continue;
        };
        let midp = srep.get(MIDP).map(|b| u64::from_le_bytes(b.try_into().unwrap_or([0; 8])));
        let radi = srep.get(RADI).map(|b| u32::from_le_bytes(b.try_into().unwrap_or([0; 4])));
        let want_m = floor_unit(t, p);
        let want_r = if p == Proto::Classic { 5_000_000 } else { 5 };
        if midp != Some(want_m) {
            out.violation(&format!("C11 midpoint wrong-unit-or-value proto={}", p.name()), &format!("clock {}.{:09}: MIDP {:?}, expected {}", secs, nanos, midp, want_m), desc.clone());
        }
        if radi != Some(want_r) {
            out.violation(&format!("C11 radius wrong proto={}", p.name()), &format!("RADI {:?}, expected {}", radi, want_r), desc.clone());
        }
        // signature over the SREP under the online key
        let sig = top.get(SIG).unwrap_or(&[]);
        let mut m = p.srep_ctx().to_vec();
        m.extend_from_slice(top.get(SREP).unwrap());
        let pk = crate::prng::unhex(&format!("{}", key)).unwrap_or_default();
        if !ed_verify(&pk, &m, sig) {
            out.violation(&format!("C11 srep signature-invalid proto={}", p.name()), "SIG over SREP does not verify under the online key", desc.clone());
        }
    }
    out.case(secs.wrapping_mul(1_000_000_007) ^ nanos as u64, true);
}

fn brackets(out: &mut Out, rng: &mut Rng, k: u64) {
    let mut cfg = HConfig::new(&rng.bytes(32));
    cfg.batch_size = *rng.pick(&[1u8, 16, 64]);
    let Ok(mut d) = Driver::new(cfg.clone(), 16) else {
        out.inconclusive("server start failed");
        return;
    };
    let srv = d.srv_value.clone();
    for _ in 0..4 {
        let n = rng.range(1, 40) as usize;
        let sends: Vec<(usize, Vec<u8>)> = (0..n).map(|i| (i % 16, if rng.chance(1, 2) { valid_classic(rng).data } else { valid_ietf(rng, Some(&srv)).data })).collect();
        let m0 = std::time::Instant::now();
        let r = d.round(sends, true);
        let mono = m0.elapsed();
        if r.panic.is_some() {
            out.inconclusive("server panicked (C08's verdict)");
            return;
        }
        // clock-step guard: wall-clock bracket must agree with the monotonic one
        let wall = r.t_after.duration_since(r.t_before).unwrap_or(Duration::from_secs(9999));
        if wall > mono + Duration::from_millis(50) || mono > wall + Duration::from_millis(50) {
            out.inconclusive("clock step detected");
            return;
        }
        judge_bracket(out, &r);
    }
    // the very same datagram again, alone, in later rounds: each reply must state the clock of
    // ITS batch (a response cached from the earlier identical request would be stale)
    for (p, wait_ms) in [(Proto::Classic, 3u64), (Proto::Classic, 40), (Proto::Ietf, if k % 4 == 0 { 1050 } else { 0 })] {
        if p == Proto::Ietf && wait_ms == 0 {
            continue;
        }
        let dg = if p == Proto::Classic { valid_classic(rng).data } else { valid_ietf(rng, Some(&srv)).data };
        for rep_no in 0..3 {
            // no sentinel: it would put a different classic request between the two identical ones
            let r = d.round_opts(vec![(0, dg.clone())], true, false);
            if r.panic.is_some() {
                return;
            }
            if rep_no > 0 {
                out.obs("identical_request_repeats_bracketed", 1);
            }
            judge_bracket(out, &r);
            std::thread::sleep(Duration::from_millis(wait_ms));
        }
    }
    out.case(fnv64(&cfg.seed) ^ k, true);
}

fn judge_bracket(out: &mut Out, r: &Round) {
    {
        for rep in &r.replies {
            let Some(v) = &rep.verified else { continue };
            let p = reply_proto(&rep.data);
            let (lo, hi) = (floor_unit(r.t_before, p), floor_unit(r.t_after, p));
            out.obs("replies_bracketed", 1);
            out.obs(&format!("replies_bracketed_{}", p.name()), 1);
            let desc = json!({"kind":"bracket","proto":p.name(),"midp":v.midp,"lo":lo,"hi":hi});
            if v.midp < lo || v.midp > hi {
                out.violation(&format!("C11 running-server midpoint-outside-bracket proto={}", p.name()), &format!("MIDP {} not within the harness clock readings [{}, {}] taken around the exchange", v.midp, lo, hi), desc.clone());
            }
            let want_r = if p == Proto::Classic { 5_000_000 } else { 5 };
            if v.radi != want_r {
                out.violation(&format!("C11 running-server radius wrong proto={}", p.name()), &format!("RADI {}", v.radi), desc);
            }
        }
    }
}

/// The server's wall clock is stepped while it runs (LD_PRELOAD shim adding an offset to
/// CLOCK_REALTIME): every response must state the stepped clock, not a clock derived from the
/// start-up reading.
fn clock_steps(ctx: &Ctx, out: &mut Out, rng: &mut Rng) {
    use crate::procs::*;
    let shim = ctx.bins.join("clockshim.so");
    if !shim.exists() {
        out.note("clock-step scenario skipped: clockshim.so not built (no C compiler?)");
        return;
    }
    let seed = rng.bytes(32);
    let pk = RefKey::from_seed(&seed).public();
    std::fs::create_dir_all(&ctx.scratch).ok();
    let off_file = ctx.scratch.join(format!("clock-offset-{}", ctx.shard));
    let _ = std::fs::write(&off_file, "0");
    let mut cfg = SrvCfg::new(free_port(false), &seed);
    cfg.num_workers = Some(2);
    cfg.tz = Some("UTC".into());
    cfg.extra_env = vec![("LD_PRELOAD".into(), shim.display().to_string()), ("RTVERIF_CLOCK_OFFSET_FILE".into(), off_file.display().to_string())];
    let Ok(mut sp) = spawn_server(&ctx.bins, &cfg, &ctx.scratch, "c11clock", None) else {
        out.inconclusive("spawn failed");
        return;
    };
    if sp.wait_ready(&pk, Duration::from_secs(10)).is_err() {
        out.inconclusive("server under the clock shim not ready");
        return;
    }
    let desc = json!({"kind":"clock-step"});
    for off in [0i64, 3_600, -3_600, 86_400 * 400, -86_400 * 30, 0] {
        let _ = std::fs::write(&off_file, off.to_string());
        std::thread::sleep(Duration::from_millis(5));
        for i in 0..12 {
            let p = if i % 2 == 0 { Proto::Classic } else { Proto::Ietf };
            let t0 = SystemTime::now();
            let r = probe(sp.cfg.port, &pk, p, rng, Duration::from_millis(1000));
            let t1 = SystemTime::now();
            let Ok(v) = r else {
                out.inconclusive("clock-step probe unanswered");
                continue;
            };
            let shift = |t: SystemTime| if off >= 0 { t + Duration::from_secs(off as u64) } else { t - Duration::from_secs((-off) as u64) };
            let (lo, hi) = (floor_unit(shift(t0), p), floor_unit(shift(t1), p));
            out.obs("clock_step_replies_bracketed", 1);
            if v.midp < lo || v.midp > hi {
                out.violation(
                    &format!("C11 running-server midpoint-ignores-clock-step proto={}", p.name()),
                    &format!("server wall clock stepped by {} s: MIDP {} is not within [{}, {}] of the stepped clock", off, v.midp, lo, hi),
                    desc.clone(),
                );
            }
        }
        out.obs("clock_steps_applied", 1);
    }
    out.case(fnv64(&seed) ^ 0xc10c, true);
    sp.signal(libc::SIGTERM);
    if sp.wait_exit(Duration::from_secs(5)).is_none() {
        sp.kill();
    }
}

/// Many clients at once against a one-worker real server: requests keep arriving while a batch
/// is being assembled and signed, and each reply is bracketed by its own client's clock readings
/// (microsecond resolution for the classic protocol).
fn concurrent_brackets(ctx: &Ctx, out: &mut Out, rng: &mut Rng) {
    use crate::procs::*;
    let seed = rng.bytes(32);
    let pk = RefKey::from_seed(&seed).public();
    let mut cfg = SrvCfg::new(free_port(false), &seed);
    cfg.num_workers = Some(1);
    cfg.batch_size = Some(*rng.pick(&[64u32, 8]));
    cfg.tz = Some("UTC".into());
    let Ok(mut sp) = spawn_server(&ctx.bins, &cfg, &ctx.scratch, "c11conc", None) else {
        out.inconclusive("spawn failed");
        return;
    };
    if sp.wait_ready(&pk, Duration::from_secs(10)).is_err() {
        out.inconclusive("server not ready");
        return;
    }
    let port = sp.cfg.port;
    let stop_at = std::time::Instant::now() + Duration::from_millis(if ctx.thorough { 4000 } else { 1800 });
    let handles: Vec<_> = (0..12u64)
        .map(|i| {
            let pk = pk.clone();
            let s0 = rng.next_u64();
            std::thread::spawn(move || {
                let mut r = Rng::new(s0 ^ i);
                let sock = std::net::UdpSocket::bind("127.0.0.1:0").unwrap();
                sock.set_read_timeout(Some(Duration::from_millis(1000))).unwrap();
                let addr: std::net::SocketAddr = format!("127.0.0.1:{}", port).parse().unwrap();
                let mut res: Vec<(Proto, u64, u64, u64, bool)> = Vec::new();
                let mut buf = vec![0u8; 4096];
                while std::time::Instant::now() < stop_at {
                    let p = if r.chance(3, 4) { Proto::Classic } else { Proto::Ietf };
                    let (pkt, nonce) = make_request(&mut r, p, None);
                    let (m0, t0) = (std::time::Instant::now(), SystemTime::now());
                    if sock.send_to(&pkt, addr).is_err() {
                        continue;
                    }
                    let Ok((n, _)) = sock.recv_from(&mut buf) else { break };
                    let (m1, t1) = (std::time::Instant::now(), SystemTime::now());
                    let view = crate::refimpl::verify::ReqView { proto: p, packet: &pkt, nonce };
                    if let Ok(v) = crate::refimpl::verify::verify_response(&view, &buf[..n], &pk, crate::refimpl::verify::Opts { strict: true }) {
                        // a stepped wall clock (or a descheduled reader) makes the bracket meaningless
                        let wall = t1.duration_since(t0).unwrap_or_default();
                        let mono = m1 - m0;
                        let steady = wall.as_micros().abs_diff(mono.as_micros()) < 50_000;
                        res.push((p, floor_unit(t0, p), v.midp, floor_unit(t1, p), steady));
                    }
                }
                res
            })
        })
        .collect();
    let mut n = 0u64;
    for h in handles {
        for (p, lo, midp, hi, steady) in h.join().unwrap_or_default() {
            if !steady {
                out.obs("concurrent_brackets_skipped_clock_unsteady", 1);
                continue;
            }
            n += 1;
            out.obs("concurrent_replies_bracketed", 1);
            if midp < lo || midp > hi {
                out.violation(
                    &format!("C11 running-server midpoint-outside-bracket concurrent-clients proto={} side={}", p.name(), if midp < lo { "before-request-was-sent" } else { "after-reply-arrived" }),
                    &format!("12 concurrent clients, one worker: MIDP {} is not within the client's own readings [{}, {}] taken right before sending and right after receiving", midp, lo, hi),
                    json!({"kind":"concurrent-bracket"}),
                );
            }
        }
    }
    out.case(fnv64(&seed) ^ 0xc0c0, true);
    out.obs_max("concurrent_replies_in_one_run", n as i64);
    sp.signal(libc::SIGTERM);
    if sp.wait_exit(Duration::from_secs(5)).is_none() {
        sp.kill();
    }
}

/// The server's log sink stalls for longer than the radius while requests keep filling its
/// batches (batch_size 1: every batch is full): whatever the worker is blocked in meanwhile, a
/// response that is finally signed and sent must not carry a clock reading older than its radius
/// ("the true time of signing lies within midpoint +/- radius").
fn stalled_log_sink(ctx: &Ctx, out: &mut Out, rng: &mut Rng) {
    use crate::procs::*;
    let seed = rng.bytes(32);
    let pk = RefKey::from_seed(&seed).public();
    let mut cfg = SrvCfg::new(free_port(false), &seed);
    cfg.num_workers = Some(1);
    cfg.batch_size = Some(1);
    cfg.tz = Some("UTC".into());
    cfg.log_pipe = true;
    let Ok(mut sp) = spawn_server(&ctx.bins, &cfg, &ctx.scratch, "c11sink", None) else {
        out.inconclusive("spawn failed");
        return;
    };
    if sp.wait_ready(&pk, Duration::from_secs(10)).is_err() {
        out.inconclusive("server with a piped log sink not ready");
        return;
    }
    std::thread::sleep(Duration::from_millis(100));
    // the sink stalls; 300 requests from one socket, their replies collected as they come
    sp.log_sink_open.store(false, std::sync::atomic::Ordering::Relaxed);
    let sock = std::net::UdpSocket::bind("127.0.0.1:0").unwrap();
    crate::inproc::set_rcvbuf(std::os::unix::io::AsRawFd::as_raw_fd(&sock), 1 << 20);
    sock.set_read_timeout(Some(Duration::from_millis(50))).unwrap();
    let addr: std::net::SocketAddr = format!("127.0.0.1:{}", sp.cfg.port).parse().unwrap();
    let stall = Duration::from_millis(8_500);
    let t_stall = std::time::Instant::now();
    let mut pending: Vec<(Vec<u8>, Vec<u8>, Proto)> = Vec::new();
    let mut sent = 0;
    let mut buf = vec![0u8; 4096];
    let mut resumed = false;
    let (mut answered, mut stale) = (0u64, 0u64);
    let mut worst = 0i64;
    loop {
        if sent < 120 && pending.len() < 40 {
            let p = if sent % 2 == 0 { Proto::Classic } else { Proto::Ietf };
            let (pkt, nonce) = make_request(rng, p, None);
            let _ = sock.send_to(&pkt, addr);
            pending.push((pkt, nonce, p));
            sent += 1;
        }
        if !resumed && t_stall.elapsed() > stall {
            sp.log_sink_open.store(true, std::sync::atomic::Ordering::Relaxed);
            resumed = true;
        }
        if let Ok((n, _)) = sock.recv_from(&mut buf) {
            let t_after = SystemTime::now();
            if let Some(i) = pending.iter().position(|(pkt, nonce, p)| crate::refimpl::verify::verify_response(&crate::refimpl::verify::ReqView { proto: *p, packet: pkt, nonce: nonce.clone() }, &buf[..n], &pk, crate::refimpl::verify::Opts { strict: true }).is_ok()) {
                let (pkt, nonce, p) = pending.remove(i);
                let v = crate::refimpl::verify::verify_response(&crate::refimpl::verify::ReqView { proto: p, packet: &pkt, nonce }, &buf[..n], &pk, crate::refimpl::verify::Opts { strict: true }).unwrap();
                answered += 1;
                let unit = if p == Proto::Classic { 1_000_000i64 } else { 1 };
                let age_units = floor_unit(t_after, p) as i64 - v.midp as i64;
                let age_ms = age_units * 1000 / unit;
                worst = worst.max(age_ms);
                // the reply left the server no earlier than it was signed and no later than now
                if age_ms > 5_000 + 1_000 {
                    stale += 1;
                }
            }
        }
        if resumed && (pending.is_empty() && sent >= 120 || t_stall.elapsed() > stall + Duration::from_secs(6)) {
            break;
        }
    }
    out.case(fnv64(&seed) ^ 0x51a1, true);
    out.obs("stalled_log_sink_runs", 1);
    out.obs("stalled_log_sink_replies", answered as i64);
    out.obs_max("stalled_log_sink_worst_reply_age_ms", worst);
    if stale > 0 {
        out.violation(
            "C11 running-server midpoint-older-than-radius stalled-log-sink",
            &format!("the server's log sink stalled for 8.5 s (batch_size 1): {} of {} replies arrived carrying a clock reading more than radius (5 s) + 1 s older than their arrival (worst {} ms)", stale, answered, worst),
            json!({"kind":"stalled-log-sink"}),
        );
    }
    sp.signal(libc::SIGTERM);
    if sp.wait_exit(Duration::from_secs(5)).is_none() {
        sp.kill();
    }
}

pub fn run_c11(ctx: &Ctx, out: &mut Out) {
    let mut rng = ctx.rng("C11");
    crate::inproc::install_shard_logger(ctx.shard, out);
    let mut key = OnlineKey::new();
    if let Some(r) = &ctx.replay {
        out.case(1, true);
        out.case(2, true);
        if r["kind"] == "midpoint" {
            api_midpoint(out, r["secs"].as_u64().unwrap(), r["nanos"].as_u64().unwrap() as u32, &mut key);
        } else {
            for k in 0..20 {
                brackets(out, &mut rng, k);
            }
        }
        return;
    }
    if ctx.shard == 0 {
        // the grid
        let xs: [u64; 9] = [0, 1, (1 << 31) - 1, 1 << 31, (1u64 << 32) - 1, 1 << 32, 7_258_118_400, 253_402_300_799, 1_700_000_000];
        let ns: [u32; 8] = [0, 1, 999, 1_000, 1_001, 999_999, 999_999_000, 999_999_999];
        for x in xs {
            for n in ns {
                api_midpoint(out, x, n, &mut key);
                out.obs("grid_points", 1);
            }
        }
    }
    for i in 0..ctx.share(400_000, 20_000_000) {
        let secs = match rng.below(4) {
            0 => rng.below(1 << 32),
            1 => rng.range(1_600_000_000, 1_900_000_000),
            2 => rng.below(253_402_300_800),
            _ => rng.below(10_000_000_000),
        };
        let nanos = match rng.below(4) {
            0 => (rng.below(1000) * 1_000_000) as u32,
            1 => (rng.below(1_000_000) * 1000) as u32,
            _ => rng.below(1_000_000_000) as u32,
        };
        api_midpoint(out, secs, nanos, &mut key);
        // (at most half of the budget: the running-server parts below need the rest)
        if i % 1024 == 0 && ctx.start.elapsed() > ctx.budget / 2 {
            break;
        }
    }
    if ctx.shard < 2 || ctx.thorough {
        clock_steps(ctx, out, &mut rng);
    }
    if (2..4).contains(&ctx.shard) || (ctx.thorough && ctx.shard % 2 == 0) {
        concurrent_brackets(ctx, out, &mut rng);
    }
    if ctx.shard == 4 || (ctx.thorough && ctx.shard % 4 == 1) {
        stalled_log_sink(ctx, out, &mut rng);
    }
    for k in 0..ctx.share(480, 32_000) {
        brackets(out, &mut rng, k);
        // (a minimum regardless of the clock, so that the floors are met on a slow machine)
        if k >= 40 && !ctx.time_left() {
            break;
        }
    }
    out.sample(json!({"clock": "7258118400.999999999", "classic_midp": 7258118400999999u64, "ietf_midp": 7258118400u64}));
    out.obs(&format!("shards_in_tz_{}", std::env::var("TZ").unwrap_or_default()), 1);
    out.floor("clock_values_checked", 50_000);
    out.floor("grid_points", 72);
    out.floor("replies_bracketed_classic", 500);
    out.floor("replies_bracketed_ietf", 500);
    out.floor("identical_request_repeats_bracketed", 200);
    out.floor("concurrent_replies_bracketed", 2_000);
    if ctx.bins.join("clockshim.so").exists() {
        out.floor("clock_step_replies_bracketed", 50);
    }
}

#[allow(dead_code)]
pub fn unused(_: &Inproc) {}
