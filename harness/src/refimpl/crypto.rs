//! Reference Merkle hashing (sha2 crate, not ring::digest which roughenough uses) and
//! reference Ed25519 (ring::signature, not ed25519-dalek which roughenough uses).

use ring::signature::{self, KeyPair};
use sha2::{Digest, Sha512};

#[derive(Debug, Clone, Copy, PartialEq, Eq, Hash)]
pub enum Proto {
    Classic,
    Ietf,
}

impl Proto {
    /// width of every Merkle node (and of ROOT) in bytes
    pub fn width(self) -> usize {
        match self {
            Proto::Classic => 64,
            Proto::Ietf => 32,
        }
    }
    pub fn nonce_len(self) -> usize {
        match self {
            Proto::Classic => 64,
            Proto::Ietf => 32,
        }
    }
    pub fn dele_ctx(self) -> &'static [u8] {
        match self {
            Proto::Classic => b"RoughTime v1 delegation signature--\x00",
            Proto::Ietf => b"RoughTime v1 delegation signature\x00",
        }
    }
    pub fn srep_ctx(self) -> &'static [u8] {
        b"RoughTime v1 response signature\x00"
    }
    pub fn name(self) -> &'static str {
        match self {
            Proto::Classic => "classic",
            Proto::Ietf => "ietf",
        }
    }
    pub fn other(self) -> Proto {
        match self {
            Proto::Classic => Proto::Ietf,
            Proto::Ietf => Proto::Classic,
        }
    }
}

pub const DRAFT13: u32 = 0x8000000c;

pub fn sha512(parts: &[&[u8]]) -> [u8; 64] {
    let mut h = Sha512::new();
    for p in parts {
        h.update(p);
    }
    let out = h.finalize();
    let mut r = [0u8; 64];
    r.copy_from_slice(&out);
    r
}

pub fn hash_leaf(p: Proto, data: &[u8]) -> Vec<u8> {
    sha512(&[&[0u8], data])[..p.width()].to_vec()
}

pub fn hash_node(p: Proto, l: &[u8], r: &[u8]) -> Vec<u8> {
    sha512(&[&[1u8], l, r])[..p.width()].to_vec()
}

/// Root recomputed from (leaf input, index, path) by the specification's rule:
/// at level k, bit k of the index says whether our node is the right (1) or left (0) child.
pub fn root_from_path(p: Proto, leaf_input: &[u8], index: u32, path: &[u8]) -> Result<Vec<u8>, String> {
    let w = p.width();
    if path.len() % w != 0 {
        return Err(format!("PATH length {} is not a multiple of the node width {}", path.len(), w));
    }
    let depth = path.len() / w;
    if depth > 32 {
        return Err(format!("PATH depth {} exceeds 32", depth));
    }
    let mut h = hash_leaf(p, leaf_input);
    let mut idx = index;
    for node in path.chunks(w) {
        h = if idx & 1 == 0 { hash_node(p, &h, node) } else { hash_node(p, node, &h) };
        idx >>= 1;
    }
    Ok(h)
}

/// Independent bottom-up tree over already-hashed leaves. `filler(level)` supplies the
/// node used to pad an odd level (the protocol leaves that choice to the server).
/// Returns (root, per-leaf path).
pub fn build_tree(p: Proto, leaf_hashes: &[Vec<u8>], filler: &mut dyn FnMut(usize) -> Vec<u8>) -> (Vec<u8>, Vec<Vec<u8>>) {
    assert!(!leaf_hashes.is_empty());
    let n = leaf_hashes.len();
    let mut paths: Vec<Vec<u8>> = vec![Vec::new(); n];
    let mut level: Vec<Vec<u8>> = leaf_hashes.to_vec();
    // position of each original leaf within the current level
    let mut pos: Vec<usize> = (0..n).collect();
    let mut lvl = 0;
    while level.len() > 1 {
        if level.len() % 2 == 1 {
            level.push(filler(lvl));
        }
        for (leaf, pp) in pos.iter_mut().enumerate() {
            let sib = *pp ^ 1;
            paths[leaf].extend_from_slice(&level[sib]);
            *pp /= 2;
        }
        let mut next = Vec::with_capacity(level.len() / 2);
        for pair in level.chunks(2) {
            next.push(hash_node(p, &pair[0], &pair[1]));
        }
        level = next;
        lvl += 1;
    }
    (level.pop().unwrap(), paths)
}

pub fn srv_value(pubkey: &[u8]) -> Vec<u8> {
    sha512(&[&[0xffu8], pubkey])[..32].to_vec()
}

/// private scalar bytes as stored by RFC 8032 (clamped lower half of SHA-512(seed))
pub fn clamped_scalar(seed: &[u8]) -> Vec<u8> {
    let mut h = sha512(&[seed])[..32].to_vec();
    h[0] &= 248;
    h[31] &= 127;
    h[31] |= 64;
    h
}

pub struct RefKey {
    kp: signature::Ed25519KeyPair,
}

impl RefKey {
    pub fn from_seed(seed: &[u8]) -> RefKey {
        RefKey { kp: signature::Ed25519KeyPair::from_seed_unchecked(seed).expect("32-byte seed") }
    }
    pub fn public(&self) -> Vec<u8> {
        self.kp.public_key().as_ref().to_vec()
    }
    pub fn sign(&self, msg: &[u8]) -> Vec<u8> {
        self.kp.sign(msg).as_ref().to_vec()
    }
}

pub fn ed_verify(pk: &[u8], msg: &[u8], sig: &[u8]) -> bool {
    signature::UnparsedPublicKey::new(&signature::ED25519, pk).verify(msg, sig).is_ok()
}

pub fn self_test() -> Result<(), String> {
    // RFC 8032 section 7.1 TEST 1 and TEST 2
    let unhex = |s: &str| crate::prng::unhex(s).unwrap();
    let t1_seed = unhex("9d61b19deffd5a60ba844af492ec2cc44449c5697b326919703bac031cae7f60");
    let t1_pk = unhex("d75a980182b10ab7d54bfed3c964073a0ee172f3daa62325af021a68f707511a");
    let t1_sig = unhex("e5564300c360ac729086e2cc806e828a84877f1eb8e5d974d873e065224901555fb8821590a33bacc61e39701cf9b46bd25bf5f0595bbe24655141438e7a100b");
    let k = RefKey::from_seed(&t1_seed);
    if k.public() != t1_pk || k.sign(b"") != t1_sig || !ed_verify(&t1_pk, b"", &t1_sig) {
        return Err("RFC 8032 test 1 failed in refsig".into());
    }
    let t2_seed = unhex("4ccd089b28ff96da9db6c346ec114e0f5b8a319f35aba624da8cf6ed4fb8a6fb");
    let t2_pk = unhex("3d4017c3e843895a92b70aa74d1b7ebc9c982ccf2ec4968cc0cd55f12af4660c");
    let t2_sig = unhex("92a009a9f0d4cab8720e820b5f642540a2b27b5416503f8fb3762223ebdb69da085ac1e43e15996e458f3613d0f11d8c387b2eaeb4302aeeb00d291612bb0c00");
    let k = RefKey::from_seed(&t2_seed);
    if k.public() != t2_pk || k.sign(&[0x72]) != t2_sig || ed_verify(&t2_pk, &[0x73], &t2_sig) {
        return Err("RFC 8032 test 2 failed in refsig".into());
    }
    // SHA-512("abc")
    let abc = sha512(&[b"abc"]);
    if crate::prng::hex(&abc[..8]) != "ddaf35a193617aba" {
        return Err("sha512 vector".into());
    }
    // tree: every path of a 5-leaf tree recomputes the root, in both widths
    for p in [Proto::Classic, Proto::Ietf] {
        let leaves: Vec<Vec<u8>> = (0..5u8).map(|i| hash_leaf(p, &[i; 7])).collect();
        let (root, paths) = build_tree(p, &leaves, &mut |_| vec![0xAB; p.width()]);
        for i in 0..5u8 {
            let r = root_from_path(p, &[i; 7], i as u32, &paths[i as usize])?;
            if r != root || r.len() != p.width() {
                return Err("refmerkle self-consistency".into());
            }
            if root_from_path(p, &[i; 7], (i as u32) ^ 1, &paths[i as usize])? == root {
                return Err("refmerkle index binding".into());
            }
        }
    }
    Ok(())
}
