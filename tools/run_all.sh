#!/bin/bash
# tools/run_all.sh [tier] [seed] : every check once on the current /repo tree; prints one line each
TIER=${1:-quick}; SEED=${2:-1}
cd "$(dirname "$0")/.."
for p in C01 C02 C03 C04 C05 C06 C07 C08 C09 C10 C11 C12 C13 C14 C15 C16 C17 C18 C19 C20; do
  OUT=$(VERIF_SEED=$SEED ./check $p $TIER 2>&1); RC=$?
  echo "$p rc=$RC $(echo "$OUT" | grep -E "$TIER seed" | head -1)"
  echo "$OUT" | grep -E "VIOLATION|KNOWN-FINDING|HARNESS-ERROR|SANITIZER-NOTE|signature:" | head -6
done
