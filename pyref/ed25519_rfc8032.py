"""Third, independent Ed25519 oracle: a direct transcription of the algorithm description in
RFC 8032 section 5.1 (big integers + hashlib SHA-512). Slow; used on samples only.
Usage as a script: reads JSON list of {seed, pk?, msg?, sig?, srv?} (hex) on stdin, prints
JSON {checked: n, mismatches: [...]}"""
import hashlib, json, sys

p = 2**255 - 19
L = 2**252 + 27742317777372353535851937790883648493
d = -121665 * pow(121666, p - 2, p) % p
I = pow(2, (p - 1) // 4, p)

def sha512(b):
    return hashlib.sha512(b).digest()

def inv(x):
    return pow(x, p - 2, p)

def xrecover(y):
    xx = (y * y - 1) * inv(d * y * y + 1)
    x = pow(xx, (p + 3) // 8, p)
    if (x * x - xx) % p != 0:
        x = (x * I) % p
    if (x * x - xx) % p != 0:
        return None
    if x % 2 != 0:
        x = p - x
    return x

By = 4 * inv(5) % p
Bx = xrecover(By)
B = (Bx % p, By % p, 1, Bx * By % p)

def add(P, Q):
    (x1, y1, z1, t1), (x2, y2, z2, t2) = P, Q
    a = (y1 - x1) * (y2 - x2) % p
    b = (y1 + x1) * (y2 + x2) % p
    c = t1 * 2 * d * t2 % p
    dd = z1 * 2 * z2 % p
    e, f, g, h = b - a, dd - c, dd + c, b + a
    return (e * f % p, g * h % p, f * g % p, e * h % p)

def mul(s, P):
    Q = (0, 1, 1, 0)
    while s > 0:
        if s & 1:
            Q = add(Q, P)
        P = add(P, P)
        s >>= 1
    return Q

def enc(P):
    x, y, z, _ = P
    zi = inv(z)
    x, y = x * zi % p, y * zi % p
    return int.to_bytes(y | ((x & 1) << 255), 32, "little")

def dec(s):
    y = int.from_bytes(s, "little")
    sign = y >> 255
    y &= (1 << 255) - 1
    if y >= p:
        return None
    x = xrecover(y)
    if x is None:
        return None
    if x == 0 and sign:
        return None
    if (x & 1) != sign:
        x = p - x
    return (x, y, 1, x * y % p)

def expand(seed):
    h = sha512(seed)
    a = int.from_bytes(h[:32], "little")
    a &= (1 << 254) - 8
    a |= 1 << 254
    return a, h[32:]

def public(seed):
    a, _ = expand(seed)
    return enc(mul(a, B))

def sign(seed, msg):
    a, prefix = expand(seed)
    A = enc(mul(a, B))
    r = int.from_bytes(sha512(prefix + msg), "little") % L
    R = enc(mul(r, B))
    h = int.from_bytes(sha512(R + A + msg), "little") % L
    S = (r + h * a) % L
    return R + int.to_bytes(S, 32, "little")

def eq(P, Q):
    return (P[0] * Q[2] - Q[0] * P[2]) % p == 0 and (P[1] * Q[2] - Q[1] * P[2]) % p == 0

def verify(pk, msg, sig):
    if len(pk) != 32 or len(sig) != 64:
        return False
    A = dec(pk)
    R = dec(sig[:32])
    if A is None or R is None:
        return False
    S = int.from_bytes(sig[32:], "little")
    if S >= L:
        return False
    h = int.from_bytes(sha512(sig[:32] + pk + msg), "little") % L
    return eq(mul(S, B), add(R, mul(h, A)))

def self_test():
    seed = bytes.fromhex("9d61b19deffd5a60ba844af492ec2cc44449c5697b326919703bac031cae7f60")
    pk = bytes.fromhex("d75a980182b10ab7d54bfed3c964073a0ee172f3daa62325af021a68f707511a")
    sig = bytes.fromhex("e5564300c360ac729086e2cc806e828a84877f1eb8e5d974d873e065224901555fb8821590a33bacc61e39701cf9b46bd25bf5f0595bbe24655141438e7a100b")
    assert public(seed) == pk and sign(seed, b"") == sig and verify(pk, b"", sig) and not verify(pk, b"x", sig)
    seed = bytes.fromhex("c5aa8df43f9f837bedb7442f31dcb7b166d38535076f094b85ce3a2e0b4458f7")
    pk = bytes.fromhex("fc51cd8e6218a1a38da47ed00230f0580816ed13ba3303ac5deb911548908025")
    msg = bytes.fromhex("af82")
    sig = bytes.fromhex("6291d657deec24024827e69c3abe01a30ce548a284743a445e3680d7db5ac3ac18ff9b538d16f290ae67f760984dc6594a7c15e9716ed28dc027beceea1ec40a")
    assert public(seed) == pk and sign(seed, msg) == sig and verify(pk, msg, sig)

def check(samples):
    self_test()
    bad, n = [], 0
    for s in samples:
        seed = bytes.fromhex(s["seed"])
        n += 1
        if "pk" in s and public(seed).hex() != s["pk"]:
            bad.append({"what": "public key", "seed": s["seed"]})
        if "srv" in s and hashlib.sha512(b"\xff" + public(seed)).digest()[:32].hex() != s["srv"]:
            bad.append({"what": "srv", "seed": s["seed"]})
        if "sig" in s:
            msg = bytes.fromhex(s["msg"])
            if sign(seed, msg).hex() != s["sig"]:
                bad.append({"what": "signature", "seed": s["seed"], "msg": s["msg"]})
            if not verify(public(seed), msg, bytes.fromhex(s["sig"])):
                bad.append({"what": "verify", "seed": s["seed"], "msg": s["msg"]})
    return {"checked": n, "mismatches": bad}

if __name__ == "__main__":
    print(json.dumps(check(json.load(sys.stdin))))
