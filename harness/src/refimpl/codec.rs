//! Independent reference codec for the Roughtime tag-value format, written from the
//! protocol description (Google PROTOCOL.md / draft-ietf-ntp-roughtime). Shares no code
//! with roughenough.
//!
//! message := u32 num_tags, (num_tags-1) x u32 offsets, num_tags x 4-byte tags, values
//! all little-endian; offsets are relative to the end of the header, multiples of 4,
//! non-decreasing and within the value area; tags strictly ascending as LE u32.

pub const KNOWN_TAGS: [&[u8; 4]; 18] = [
    b"SIG\x00", b"VER\x00", b"SRV\x00", b"NONC", b"DELE", b"PATH", b"RADI", b"PUBK", b"MIDP",
    b"SREP", b"VERS", b"MINT", b"ROOT", b"CERT", b"MAXT", b"INDX", b"ZZZZ", b"PAD\xff",
];

pub fn tag_u32(t: &[u8; 4]) -> u32 {
    u32::from_le_bytes(*t)
}

pub fn is_known(t: u32) -> bool {
    KNOWN_TAGS.iter().any(|k| tag_u32(k) == t)
}

pub fn tag_name(t: u32) -> String {
    let b = t.to_le_bytes();
    let mut s = String::new();
    for c in b {
        if c.is_ascii_alphanumeric() {
            s.push(c as char)
        } else if c != 0 {
            s.push_str(&format!("\\x{:02x}", c))
        }
    }
    s
}

pub const SIG: u32 = u32::from_le_bytes(*b"SIG\x00");
pub const VER: u32 = u32::from_le_bytes(*b"VER\x00");
pub const SRV: u32 = u32::from_le_bytes(*b"SRV\x00");
pub const NONC: u32 = u32::from_le_bytes(*b"NONC");
pub const DELE: u32 = u32::from_le_bytes(*b"DELE");
pub const PATH: u32 = u32::from_le_bytes(*b"PATH");
pub const RADI: u32 = u32::from_le_bytes(*b"RADI");
pub const PUBK: u32 = u32::from_le_bytes(*b"PUBK");
pub const MIDP: u32 = u32::from_le_bytes(*b"MIDP");
pub const SREP: u32 = u32::from_le_bytes(*b"SREP");
pub const VERS: u32 = u32::from_le_bytes(*b"VERS");
pub const MINT: u32 = u32::from_le_bytes(*b"MINT");
pub const ROOT: u32 = u32::from_le_bytes(*b"ROOT");
pub const CERT: u32 = u32::from_le_bytes(*b"CERT");
pub const MAXT: u32 = u32::from_le_bytes(*b"MAXT");
pub const INDX: u32 = u32::from_le_bytes(*b"INDX");
pub const ZZZZ: u32 = u32::from_le_bytes(*b"ZZZZ");
pub const PAD: u32 = u32::from_le_bytes(*b"PAD\xff");

#[derive(Debug, Clone, PartialEq, Eq)]
pub struct RefMsg {
    pub fields: Vec<(u32, Vec<u8>)>,
}

#[derive(Debug, Clone, PartialEq, Eq)]
pub enum RefErr {
    TooShort,
    Unaligned,
    HeaderDoesNotFit,
    OffsetUnaligned,
    OffsetDecreasing,
    OffsetPastEnd,
    UnknownTag,
    TagOrder,
}

fn rd32(b: &[u8], at: usize) -> u32 {
    u32::from_le_bytes([b[at], b[at + 1], b[at + 2], b[at + 3]])
}

impl RefMsg {
    pub fn new() -> Self {
        RefMsg { fields: Vec::new() }
    }

    pub fn get(&self, tag: u32) -> Option<&[u8]> {
        self.fields.iter().find(|(t, _)| *t == tag).map(|(_, v)| v.as_slice())
    }

    pub fn has(&self, tag: u32) -> bool {
        self.get(tag).is_some()
    }

    /// insert keeping numeric order (replaces an existing value)
    pub fn set(&mut self, tag: u32, val: &[u8]) {
        if let Some(f) = self.fields.iter_mut().find(|(t, _)| *t == tag) {
            f.1 = val.to_vec();
            return;
        }
        let pos = self.fields.iter().position(|(t, _)| *t > tag).unwrap_or(self.fields.len());
        self.fields.insert(pos, (tag, val.to_vec()));
    }

    pub fn remove(&mut self, tag: u32) {
        self.fields.retain(|(t, _)| *t != tag);
    }

    /// Strict decoder. `known_only`: reject tags outside the 18 known ones (that is what
    /// the property's reference decoder does); the verifier uses the same setting.
    pub fn decode(b: &[u8]) -> Result<RefMsg, RefErr> {
        Self::decode_opt(b, true)
    }

    pub fn decode_opt(b: &[u8], known_only: bool) -> Result<RefMsg, RefErr> {
        if b.len() < 4 {
            return Err(RefErr::TooShort);
        }
        if b.len() % 4 != 0 {
            return Err(RefErr::Unaligned);
        }
        let n = rd32(b, 0) as u64;
        if n == 0 {
            // no tags: every structural rule is vacuous
            return Ok(RefMsg::new());
        }
        let header = 4 + 4 * (n - 1) + 4 * n; // u64, cannot overflow
        if header > b.len() as u64 {
            return Err(RefErr::HeaderDoesNotFit);
        }
        let n = n as usize;
        let header = header as usize;
        let data_len = b.len() - header;
        let mut offs: Vec<usize> = Vec::with_capacity(n + 1);
        offs.push(0);
        for i in 0..n - 1 {
            let o = rd32(b, 4 + 4 * i) as usize;
            if o % 4 != 0 {
                return Err(RefErr::OffsetUnaligned);
            }
            if o < *offs.last().unwrap() {
                return Err(RefErr::OffsetDecreasing);
            }
            if o > data_len {
                return Err(RefErr::OffsetPastEnd);
            }
            offs.push(o);
        }
        offs.push(data_len);
        let tag_base = 4 + 4 * (n - 1);
        let mut fields = Vec::with_capacity(n);
        let mut prev: Option<u32> = None;
        for i in 0..n {
            let t = rd32(b, tag_base + 4 * i);
            if known_only && !is_known(t) {
                return Err(RefErr::UnknownTag);
            }
            if let Some(p) = prev {
                if t <= p {
                    return Err(RefErr::TagOrder);
                }
            }
            prev = Some(t);
            fields.push((t, b[header + offs[i]..header + offs[i + 1]].to_vec()));
        }
        Ok(RefMsg { fields })
    }

    /// Encoder; fields are written in the order held (callers that want canonical output
    /// keep them sorted; forgers may not).
    pub fn encode(&self) -> Vec<u8> {
        let n = self.fields.len();
        let mut out = Vec::new();
        out.extend_from_slice(&(n as u32).to_le_bytes());
        let mut acc = 0usize;
        for i in 0..n.saturating_sub(1) {
            acc += self.fields[i].1.len();
            out.extend_from_slice(&(acc as u32).to_le_bytes());
        }
        for (t, _) in &self.fields {
            out.extend_from_slice(&t.to_le_bytes());
        }
        for (_, v) in &self.fields {
            out.extend_from_slice(v);
        }
        out
    }

    pub fn encode_framed(&self) -> Vec<u8> {
        frame(&self.encode())
    }
}

pub fn frame(payload: &[u8]) -> Vec<u8> {
    let mut out = Vec::with_capacity(payload.len() + 12);
    out.extend_from_slice(b"ROUGHTIM");
    out.extend_from_slice(&(payload.len() as u32).to_le_bytes());
    out.extend_from_slice(payload);
    out
}

/// Strict unframing: magic, LE32 length equal to the remaining length.
pub fn unframe(b: &[u8]) -> Result<&[u8], &'static str> {
    if b.len() < 12 {
        return Err("frame shorter than 12 bytes");
    }
    if &b[0..8] != b"ROUGHTIM" {
        return Err("frame magic missing");
    }
    let l = rd32(b, 8) as usize;
    if l != b.len() - 12 {
        return Err("frame length differs from payload length");
    }
    Ok(&b[12..])
}

pub fn self_test() -> Result<(), String> {
    // order of the known tag table must be strictly ascending numerically
    for w in KNOWN_TAGS.windows(2) {
        if tag_u32(w[0]) >= tag_u32(w[1]) {
            return Err(format!("KNOWN_TAGS not ascending at {:?}", w[0]));
        }
    }
    // hand-made vector: 2 tags SIG(4 bytes) NONC(8 bytes)
    let mut m = RefMsg::new();
    m.set(NONC, &[9, 9, 9, 9, 8, 8, 8, 8]);
    m.set(SIG, &[1, 2, 3, 4]);
    let e = m.encode();
    let expect: Vec<u8> = [
        &2u32.to_le_bytes()[..],
        &4u32.to_le_bytes()[..],
        b"SIG\x00",
        b"NONC",
        &[1, 2, 3, 4],
        &[9, 9, 9, 9, 8, 8, 8, 8],
    ]
    .concat();
    if e != expect {
        return Err("refcodec encode vector mismatch".into());
    }
    if RefMsg::decode(&e) != Ok(m.clone()) {
        return Err("refcodec decode vector mismatch".into());
    }
    if RefMsg::decode(&[0, 0, 0, 0]) != Ok(RefMsg::new()) {
        return Err("empty message".into());
    }
    // swapped tags must be rejected
    let mut bad = e.clone();
    bad[8..12].copy_from_slice(b"NONC");
    bad[12..16].copy_from_slice(b"SIG\x00");
    if RefMsg::decode(&bad) != Err(RefErr::TagOrder) {
        return Err("tag order not enforced".into());
    }
    let f = frame(&e);
    if unframe(&f) != Ok(&e[..]) {
        return Err("frame".into());
    }
    Ok(())
}
