#!/bin/bash
# tools/run_mutant.sh <patchfile> <tier> <prop>... : apply to /repo, run the checks, undo.
# With MUT_REPO=<worktree> the patch is applied there (and the checks run with VERIF_REPO=<worktree>)
# instead of /repo, so that /repo stays free for other runs.
P=$1; TIER=$2; shift 2
R=${MUT_REPO:-/repo}
git -C $R diff --quiet || { echo "$R not clean"; exit 2; }
git -C $R apply $P || exit 2
for prop in "$@"; do
  OUT=$(cd /verif && VERIF_REPO=$R ./check $prop $TIER 2>/dev/null); RC=$?
  echo "== $prop $TIER exit=$RC"; echo "$OUT" | grep -E "VIOLATION|signature:" | head -6
done
git -C $R checkout -- .
git -C $R status --short | grep -v '^??' | head -3
