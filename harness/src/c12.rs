//! C12 — IETF requests are answered iff they name a supported version and this server.

use serde_json::json;

use crate::c09::round_replay;
use crate::driver::*;
use crate::inproc::HConfig;
use crate::out::{Ctx, Out};
use crate::prng::{hex, Rng};
use crate::refimpl::crypto::{srv_value, RefKey, DRAFT13};
use crate::refimpl::req;

const VOCAB: [u32; 5] = [DRAFT13, 0, 0x8000000b, 0x8000000d, 1];

#[derive(Clone)]
struct Case {
    vers: Vec<u32>,
    srv: Option<Vec<u8>>,
    srv_mode: &'static str,
    data: Vec<u8>,
}

fn judge(out: &mut Out, cfg: &HConfig, d: &mut Driver, cases: Vec<Case>) {
    for chunk in cases.chunks(48) {
        d.ensure_socks(chunk.len());
        let sends: Vec<(usize, Vec<u8>)> = chunk.iter().enumerate().map(|(i, c)| (i, c.data.clone())).collect();
        let rounds = vec![sends.clone()];
        let r = d.round(sends, true);
        let rp = || round_replay(cfg, &rounds);
        if let Some(p) = &r.panic {
            out.note(&format!("server panicked (C08's verdict): {}", crate::c05::panic_site(p)));
            out.inconclusive("server panicked");
            return;
        }
        if r.sentinel_replies == 0 {
            out.inconclusive("sentinel unanswered");
            return;
        }
        for (i, c) in chunk.iter().enumerate() {
            let replies: Vec<&Reply> = r.replies.iter().filter(|x| x.sock == i).collect();
            let has13 = c.vers.contains(&DRAFT13);
            let early13 = c.vers.iter().take(4).any(|v| *v == DRAFT13);
            let srv_ok = c.srv_mode != "wrong";
            let answered = !replies.is_empty();
            out.obs("requests_judged", 1);
            out.obs(&format!("srv_{}_{}", c.srv_mode, if answered { "answered" } else { "silent" }), 1);
            let vdesc = || format!("VER list {:?} SRV {}", c.vers.iter().map(|v| format!("{:08x}", v)).collect::<Vec<_>>(), c.srv_mode);
            if answered && !has13 {
                out.violation(&format!("C12 answered without-draft13 listlen={}", c.vers.len()), &format!("{} was answered", vdesc()), rp());
            }
            if answered && !srv_ok {
                out.violation("C12 answered wrong-SRV", &format!("{} (SRV {}) was answered", vdesc(), c.srv.as_ref().map(|s| hex(s)).unwrap_or_default()), rp());
            }
            if !answered && early13 && srv_ok {
                if r.drops_moved {
                    out.inconclusive("kernel drop counter moved");
                } else {
                    let pos = c.vers.iter().position(|v| *v == DRAFT13).unwrap();
                    out.violation(&format!("C12 silent although-draft13-at-position={} srv={}", pos, c.srv_mode), &format!("{} got no reply", vdesc()), rp());
                }
            }
            if has13 && !early13 {
                out.obs(if answered { "late13_answered" } else { "late13_silent" }, 1);
            }
            if replies.len() > 1 {
                out.violation("C12 multiple replies", &format!("{} got {} replies", vdesc(), replies.len()), rp());
            }
            for rep in replies {
                // strict verification covers: SREP.VER == draft-13, VERS present, list of 4-byte
                // versions containing draft-13
                match &rep.verified {
                    Some(v) if v.has_vers => out.obs("replies_with_ver_and_vers", 1),
                    Some(_) => out.violation("C12 reply lacks-VERS", "reply verified but VERS was not checked", rp()),
                    None => {
                        let why = rep.reason.clone().unwrap_or_default();
                        out.violation(&format!("C12 reply invalid why={}", crate::c09::reason_class(&why)), &format!("reply to {} does not verify: {}", vdesc(), why), rp());
                    }
                }
            }
        }
    }
}

pub fn run(ctx: &Ctx, out: &mut Out) {
    let mut rng: Rng = ctx.rng("C12");
    crate::inproc::install_shard_logger(ctx.shard, out);
    if let Some(r) = &ctx.replay {
        crate::c09::replay_history(out, "C12", r);
        return;
    }
    let passes = if ctx.thorough { 40 } else { 1 };
    for pass in 0..passes {
    let seed = rng.bytes(32);
    let mut cfg = HConfig::new(&seed);
    cfg.batch_size = if pass == 0 { *rng.pick(&[1u8, 7, 64]) } else { rng.range(1, 64) as u8 };
    let Ok(mut d) = Driver::new(cfg.clone(), 48) else {
        out.inconclusive("server start failed");
        continue;
    };
    let my_srv = d.srv_value.clone();
    let other_srv = srv_value(&RefKey::from_seed(&rng.bytes(32)).public());
    // (a) all version lists up to length L over the vocabulary x SRV {absent, correct, wrong}
    let maxlen = 6; // the whole scope of the quantifier is cheap enough for the quick tier too
    let total: u64 = (0..=maxlen).map(|l| 5u64.pow(l)).sum();
    let mut cases = Vec::new();
    let mut idx = ctx.shard;
    while idx < total {
        let mut i = idx;
        let mut len = 0u32;
        loop {
            let c = 5u64.pow(len);
            if i < c {
                break;
            }
            i -= c;
            len += 1;
        }
        let mut vers = Vec::new();
        for _ in 0..len {
            vers.push(VOCAB[(i % 5) as usize]);
            i /= 5;
        }
        for mode in ["absent", "correct", "wrong"] {
            let srv = match mode {
                "absent" => None,
                "correct" => Some(my_srv.clone()),
                _ => Some(other_srv.clone()),
            };
            let data = req::ietf_request(&vers, srv.as_deref(), &rng.bytes(32), 1024);
            cases.push(Case { vers: vers.clone(), srv, srv_mode: mode, data });
            out.case((pass as u64) << 40 | (idx * 3 + ["absent", "correct", "wrong"].iter().position(|m| *m == mode).unwrap() as u64), true);
        }
        idx += ctx.nshards;
    }
    out.obs("version_lists_enumerated", (cases.len() / 3) as i64);
    judge(out, &cfg, &mut d, cases);
    out.exhaustive = Some(true);
    out.extra.insert("exhaustive_scope".into(), json!({"vocabulary": VOCAB.iter().map(|v| format!("{:08x}", v)).collect::<Vec<_>>(), "max_list_len": maxlen, "lists": total, "srv_modes": 3}));
    // (b) the minimal list with SRV under every single-bit corruption, wrong lengths, another server's value
    if ctx.shard == 0 || ctx.thorough {
        let mut cases = Vec::new();
        for bit in 0..256 {
            let mut s = my_srv.clone();
            s[bit / 8] ^= 1 << (bit % 8);
            cases.push(Case { vers: vec![DRAFT13], srv: Some(s.clone()), srv_mode: "wrong", data: req::ietf_request(&[DRAFT13], Some(&s), &rng.bytes(32), 1024) });
            out.obs("srv_bit_flips", 1);
        }
        // the same bit flipped in two different bytes (differences that cancel under XOR / sum),
        // and random multi-bit corruptions
        for a in 0..32usize {
            for b in (a + 1)..32 {
                let bit = (a * 7 + b) % 8;
                let mut s = my_srv.clone();
                s[a] ^= 1 << bit;
                s[b] ^= 1 << bit;
                cases.push(Case { vers: vec![DRAFT13], srv: Some(s.clone()), srv_mode: "wrong", data: req::ietf_request(&[DRAFT13], Some(&s), &rng.bytes(32), 1024) });
                out.obs("srv_two_bit_flips", 1);
            }
        }
        for _ in 0..600 {
            let mut s = my_srv.clone();
            for _ in 0..rng.range(2, 6) {
                let i = rng.usize_below(32);
                s[i] ^= 1 << rng.below(8);
            }
            if s != my_srv {
                cases.push(Case { vers: vec![DRAFT13], srv: Some(s.clone()), srv_mode: "wrong", data: req::ietf_request(&[DRAFT13], Some(&s), &rng.bytes(32), 1024) });
            }
        }
        // two bytes swapped / rotated value / reversed value
        {
            let mut s = my_srv.clone();
            s.swap(0, 31);
            let mut r = my_srv.clone();
            r.rotate_left(1);
            let mut v = my_srv.clone();
            v.reverse();
            for s in [s, r, v] {
                if s != my_srv {
                    cases.push(Case { vers: vec![DRAFT13], srv: Some(s.clone()), srv_mode: "wrong", data: req::ietf_request(&[DRAFT13], Some(&s), &rng.bytes(32), 1024) });
                }
            }
        }
        // values that differ from the right one only by how its hex digits are grouped into bytes
        // (equal under any comparison that goes through an unpadded textual rendering)
        {
            let hi: Vec<usize> = (0..32).filter(|i| my_srv[*i] >= 0x10).collect();
            if hi.len() >= 4 {
                // four bytes 0xXY written as 0x0X 0x0Y: 36 bytes
                let mut s = Vec::new();
                for (i, b) in my_srv.iter().enumerate() {
                    if hi[..4].contains(&i) {
                        s.push(b >> 4);
                        s.push(b & 15);
                    } else {
                        s.push(*b);
                    }
                }
                cases.push(Case { vers: vec![DRAFT13], srv: Some(s.clone()), srv_mode: "wrong", data: req::ietf_request(&[DRAFT13], Some(&s), &rng.bytes(32), 1024) });
                out.obs("srv_hex_regrouped_cases", 1);
            }
            for i in 0..31 {
                // (0x0X, 0xYZ) <-> (0xXY, 0x0Z)
                let (a, b) = (my_srv[i], my_srv[i + 1]);
                let mut s = my_srv.clone();
                if a < 0x10 && b >= 0x10 {
                    s[i] = (a << 4) | (b >> 4);
                    s[i + 1] = b & 15;
                } else if a >= 0x10 && b < 0x10 && a & 15 != 0 {
                    s[i] = a >> 4;
                    s[i + 1] = ((a & 15) << 4) | b;
                } else {
                    continue;
                }
                if s != my_srv {
                    cases.push(Case { vers: vec![DRAFT13], srv: Some(s.clone()), srv_mode: "wrong", data: req::ietf_request(&[DRAFT13], Some(&s), &rng.bytes(32), 1024) });
                    out.obs("srv_hex_regrouped_cases", 1);
                }
            }
            // the value as text: hex digits, and decimal numbers, as bytes
            for s in [crate::prng::hex(&my_srv).into_bytes(), my_srv.iter().map(|b| b.to_string()).collect::<String>().into_bytes()] {
                let mut s = s;
                while s.len() % 4 != 0 {
                    s.push(b' ');
                }
                cases.push(Case { vers: vec![DRAFT13], srv: Some(s.clone()), srv_mode: "wrong", data: req::ietf_request(&[DRAFT13], Some(&s), &rng.bytes(32), 1024) });
            }
        }
        for l in [0usize, 4, 28, 36, 64] {
            let mut s = my_srv.clone();
            s.resize(l, 0xaa);
            cases.push(Case { vers: vec![DRAFT13], srv: Some(s.clone()), srv_mode: "wrong", data: req::ietf_request(&[DRAFT13], Some(&s), &rng.bytes(32), 1024) });
            out.obs("srv_wrong_lengths", 1);
        }
        for _ in 0..8 {
            let s = srv_value(&RefKey::from_seed(&rng.bytes(32)).public());
            cases.push(Case { vers: vec![DRAFT13], srv: Some(s.clone()), srv_mode: "wrong", data: req::ietf_request(&[DRAFT13], Some(&s), &rng.bytes(32), 1024) });
        }
        // SRV computed without the 0xff prefix / over the seed / the public key itself
        let pk = d.ref_pk.clone();
        for s in [crate::refimpl::crypto::sha512(&[&pk])[..32].to_vec(), pk.clone()] {
            cases.push(Case { vers: vec![DRAFT13], srv: Some(s.clone()), srv_mode: "wrong", data: req::ietf_request(&[DRAFT13], Some(&s), &rng.bytes(32), 1024) });
        }
        cases.push(Case { vers: vec![DRAFT13], srv: Some(my_srv.clone()), srv_mode: "correct", data: req::ietf_request(&[DRAFT13], Some(&my_srv), &rng.bytes(32), 1024) });
        for c in &cases {
            out.case(crate::prng::fnv64(&c.data), true);
        }
        judge(out, &cfg, &mut d, cases);
        // very long VER lists with draft-13 among the first four entries: must be answered
        {
            let mut cases = Vec::new();
            for len in [7usize, 64, 255, 256, 257, 258, 259, 300, 340] {
                for pos in [0usize, 3] {
                    let mut vers: Vec<u32> = (0..len).map(|i| 0x9000_0000 + i as u32).collect();
                    vers[pos] = DRAFT13;
                    let data = req::ietf_request(&vers, None, &rng.bytes(32), 1500);
                    if data.len() != 1500 {
                        continue;
                    }
                    out.case(crate::prng::fnv64(&data), true);
                    out.obs("long_version_list_cases", 1);
                    cases.push(Case { vers, srv: None, srv_mode: "absent", data });
                }
            }
            judge(out, &cfg, &mut d, cases);
        }
        // extra tags around SRV (its position among the tags changes): a wrong SRV still silences
        {
            use crate::refimpl::codec::*;
            let mut cases = Vec::new();
            for extra in [vec![SIG], vec![SIG, PATH], vec![PATH], vec![INDX, SIG]] {
                for mode in ["wrong", "correct"] {
                    let mut m = RefMsg::new();
                    m.set(VER, &DRAFT13.to_le_bytes());
                    m.set(NONC, &rng.bytes(32));
                    let s = if mode == "wrong" { other_srv.clone() } else { my_srv.clone() };
                    m.set(SRV, &s);
                    for t in &extra {
                        m.set(*t, &rng.bytes(8));
                    }
                    m.set(ZZZZ, &[]);
                    let base = 12 + m.encode().len();
                    m.set(ZZZZ, &vec![0u8; 1024 - base]);
                    let data = m.encode_framed();
                    out.case(crate::prng::fnv64(&data), true);
                    out.obs("srv_with_extra_tags_cases", 1);
                    cases.push(Case { vers: vec![DRAFT13], srv: Some(s), srv_mode: if mode == "wrong" { "wrong" } else { "correct" }, data });
                }
            }
            judge(out, &cfg, &mut d, cases);
        }
        // fields under tags no protocol version knows, placed so that they sort right in front of
        // VER, SRV or NONC and carrying exactly the value that tag would need: the version list is
        // what VER holds, the commitment is what SRV holds, whatever else the datagram carries
        {
            use crate::refimpl::codec::*;
            let unk = |s: &[u8; 4]| u32::from_le_bytes(*s);
            let mut cases = Vec::new();
            for k in 0..12 {
                let mut m = RefMsg::new();
                let (vers, srv, mode): (Vec<u32>, Option<Vec<u8>>, &'static str) = match k % 4 {
                    0 => {
                        // unknown tag (sorting first) = draft-13, VER = unknown numbers
                        m.set(unk(b"AAA\0"), &DRAFT13.to_le_bytes());
                        let v: Vec<u32> = (0..(1 + k / 4 * 3)).map(|i| 0x9000_0000 + i as u32).collect();
                        (v, None, "absent")
                    }
                    1 => {
                        // VER = draft-13, unknown tag between VER and SRV = this server's value, SRV = another's
                        m.set(unk(b"AAS\0"), &my_srv);
                        (vec![DRAFT13], Some(other_srv.clone()), "wrong")
                    }
                    2 => {
                        // both at once
                        m.set(unk(b"AAA\0"), &DRAFT13.to_le_bytes());
                        m.set(unk(b"AAS\0"), &my_srv);
                        (vec![1, 2], Some(other_srv.clone()), "wrong")
                    }
                    _ => {
                        // unknown tag after VER carrying draft-13, VER itself empty
                        m.set(unk(b"AAS\0"), &DRAFT13.to_le_bytes());
                        (vec![], None, "absent")
                    }
                };
                let vb: Vec<u8> = vers.iter().flat_map(|v| v.to_le_bytes()).collect();
                m.set(VER, &vb);
                if let Some(s) = &srv {
                    m.set(SRV, s);
                }
                m.set(NONC, &rng.bytes(32));
                m.set(ZZZZ, &[]);
                let base = 12 + m.encode().len();
                m.set(ZZZZ, &vec![0u8; 1024 - base]);
                let data = m.encode_framed();
                out.case(crate::prng::fnv64(&data), true);
                out.obs("unknown_tag_carrier_cases", 1);
                cases.push(Case { vers, srv, srv_mode: mode, data });
            }
            judge(out, &cfg, &mut d, cases);
        }
        // near misses of the draft-13 number (single lists and pairs): none of them names it
        {
            let near: [u32; 12] = [0x0000_000c, 0x8000_010c, 0x0c00_0080, 0x8000_00c0, 0x8000_000c ^ 1, 0x8000_000c ^ 0x4000_0000, 0x0000_800c, 0xc000_000c, 0x8000_000c - 1, 0x8000_000c + 1, 0x7fff_ffff, 0x8000_0000];
            let mut cases = Vec::new();
            for a in near {
                cases.push(Case { vers: vec![a], srv: None, srv_mode: "absent", data: req::ietf_request(&[a], None, &rng.bytes(32), 1024) });
                for b in [near[0], near[1], 0] {
                    cases.push(Case { vers: vec![a, b], srv: None, srv_mode: "absent", data: req::ietf_request(&[a, b], None, &rng.bytes(32), 1024) });
                }
                cases.push(Case { vers: vec![a, DRAFT13], srv: None, srv_mode: "absent", data: req::ietf_request(&[a, DRAFT13], None, &rng.bytes(32), 1024) });
            }
            for c in &cases {
                out.case(crate::prng::fnv64(&c.data), true);
                out.obs("near_miss_version_cases", 1);
            }
            judge(out, &cfg, &mut d, cases);
        }
        // VER values whose bytes contain the draft-13 word only at unaligned offsets
        {
            let mut cases = Vec::new();
            for shift in 1..=3usize {
                for lead in [0u8, 1, 0x80] {
                    let mut v = vec![lead; shift];
                    v.extend_from_slice(&DRAFT13.to_le_bytes());
                    while v.len() % 4 != 0 {
                        v.push(lead);
                    }
                    let vers: Vec<u32> = v.chunks(4).map(|c| u32::from_le_bytes(c.try_into().unwrap())).collect();
                    if vers.contains(&DRAFT13) {
                        continue;
                    }
                    let data = req::ietf_request_raw(Some(&v), None, Some(&rng.bytes(32)), 1024);
                    out.case(crate::prng::fnv64(&data), true);
                    out.obs("unaligned_version_pattern_cases", 1);
                    cases.push(Case { vers, srv: None, srv_mode: "absent", data });
                }
            }
            judge(out, &cfg, &mut d, cases);
        }
        // requests that name no version in their own bytes, sent right after a long request whose
        // padding is full of draft-13 version words (a reused receive buffer must not lend them one)
        for _ in 0..6 {
            let (first, seconds) = stale_buffer_probe(&mut rng);
            let mut cases = vec![Case { vers: vec![DRAFT13], srv: None, srv_mode: "absent", data: first }];
            for sdg in seconds {
                out.case(crate::prng::fnv64(&sdg), true);
                out.obs("stale_buffer_cases", 1);
                cases.push(Case { vers: vec![], srv: None, srv_mode: "absent", data: sdg });
            }
            judge(out, &cfg, &mut d, cases);
        }
    }
    // a second server with ANOTHER seed in the same process, while the first is still alive: each
    // answers for its own commitment value only
    {
        let seed2 = rng.bytes(32);
        let mut cfg2 = HConfig::new(&seed2);
        cfg2.batch_size = cfg.batch_size;
        if let Ok(mut d2) = Driver::new(cfg2.clone(), 16) {
            let srv2 = d2.srv_value.clone();
            let mut cases = Vec::new();
            for (mode, s) in [("correct", Some(srv2.clone())), ("wrong", Some(my_srv.clone())), ("absent", None), ("wrong", Some(other_srv.clone()))] {
                for _ in 0..3 {
                    let data = req::ietf_request(&[DRAFT13], s.as_deref(), &rng.bytes(32), 1024);
                    out.case(crate::prng::fnv64(&data), true);
                    out.obs("second_instance_cases", 1);
                    cases.push(Case { vers: vec![DRAFT13], srv: s.clone(), srv_mode: mode, data });
                }
            }
            judge(out, &cfg2, &mut d2, cases);
            // and the first one has not changed its mind meanwhile
            let mut cases = Vec::new();
            for (mode, s) in [("correct", Some(my_srv.clone())), ("wrong", Some(srv2.clone()))] {
                let data = req::ietf_request(&[DRAFT13], s.as_deref(), &rng.bytes(32), 1024);
                out.case(crate::prng::fnv64(&data), true);
                cases.push(Case { vers: vec![DRAFT13], srv: s.clone(), srv_mode: mode, data });
            }
            judge(out, &cfg, &mut d, cases);
        } else {
            out.inconclusive("second server start failed");
        }
    }
    if !ctx.time_left() {
        break;
    }
    }
    if out.samples.is_empty() {
        out.sample(json!({"request": "VER=[8000000c] SRV=correct", "expected": "answered, SREP.VER=8000000c, VERS contains 8000000c"}));
        out.sample(json!({"request": "VER=[00000000,8000000b] SRV=absent", "expected": "no reply"}));
    }
    for m in ["absent", "correct"] {
        out.floor(&format!("srv_{}_answered", m), 20);
        out.floor(&format!("srv_{}_silent", m), 20);
    }
    out.floor("srv_wrong_silent", 100);
    out.floor("srv_bit_flips", 256);
    out.floor("replies_with_ver_and_vers", 100);
}
