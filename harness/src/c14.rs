//! C14 — envelope-encrypted seed: round-trips, detects every tampering, leaks nothing.
//! Fault enumeration over blob positions / truncation lengths / provider faults.

use std::cell::RefCell;
use std::collections::HashMap;
use std::panic::{catch_unwind, AssertUnwindSafe};

use ring::aead::{Aad, LessSafeKey, Nonce, UnboundKey, AES_256_GCM};
use roughenough::kms::{EnvelopeEncryption, KmsError, KmsProvider};
use serde_json::json;

use crate::inproc::take_panics;
use crate::out::{Ctx, Out};
use crate::prng::{fnv64, hex, Rng};

#[derive(Clone, Copy, Debug, PartialEq)]
enum Fault {
    None,
    EncryptErr,
    DecryptErr,
    DecryptOtherKey,
    DecryptShortKey(usize),
}

#[derive(Clone, Copy, Debug, PartialEq)]
enum Kind {
    /// AES-256-GCM wrap under a master key: 12 + 32 + 16 = 60 byte wrapped key
    AesWrap,
    /// the wrapped key is an opaque handle of the given length; the provider keeps the key
    Token(usize),
}

struct Provider {
    kind: Kind,
    master: Vec<u8>,
    rng: RefCell<Rng>,
    store: RefCell<HashMap<Vec<u8>, Vec<u8>>>,
    seen_deks: RefCell<Vec<Vec<u8>>>,
    fault: RefCell<Fault>,
    calls: RefCell<(u32, u32)>,
}

impl Provider {
    fn new(kind: Kind, rng: &mut Rng) -> Provider {
        Provider {
            kind,
            master: rng.bytes(32),
            rng: RefCell::new(Rng::new(rng.next_u64())),
            store: RefCell::new(HashMap::new()),
            seen_deks: RefCell::new(Vec::new()),
            fault: RefCell::new(Fault::None),
            calls: RefCell::new((0, 0)),
        }
    }
}

impl KmsProvider for Provider {
    fn encrypt_dek(&self, dek: &Vec<u8>) -> Result<Vec<u8>, KmsError> {
        self.calls.borrow_mut().0 += 1;
        self.seen_deks.borrow_mut().push(dek.clone());
        if *self.fault.borrow() == Fault::EncryptErr {
            return Err(KmsError::OperationFailed("injected encrypt fault".into()));
        }
        match self.kind {
            Kind::AesWrap => {
                let n = self.rng.borrow_mut().bytes(12);
                let key = LessSafeKey::new(UnboundKey::new(&AES_256_GCM, &self.master).unwrap());
                let mut buf = dek.clone();
                key.seal_in_place_append_tag(Nonce::try_assume_unique_for_key(&n).unwrap(), Aad::empty(), &mut buf).unwrap();
                let mut out = n;
                out.extend_from_slice(&buf);
                Ok(out)
            }
            Kind::Token(l) => {
                let t = self.rng.borrow_mut().bytes(l);
                self.store.borrow_mut().insert(t.clone(), dek.clone());
                Ok(t)
            }
        }
    }

    fn decrypt_dek(&self, wrapped: &Vec<u8>) -> Result<Vec<u8>, KmsError> {
        self.calls.borrow_mut().1 += 1;
        match *self.fault.borrow() {
            Fault::DecryptErr => return Err(KmsError::OperationFailed("injected decrypt fault".into())),
            Fault::DecryptOtherKey => return Ok(self.rng.borrow_mut().bytes(32)),
            Fault::DecryptShortKey(l) => return Ok(self.rng.borrow_mut().bytes(l)),
            _ => {}
        }
        match self.kind {
            Kind::AesWrap => {
                if wrapped.len() < 28 {
                    return Err(KmsError::InvalidData("wrapped key too short".into()));
                }
                let key = LessSafeKey::new(UnboundKey::new(&AES_256_GCM, &self.master).unwrap());
                let mut buf = wrapped[12..].to_vec();
                match key.open_in_place(Nonce::try_assume_unique_for_key(&wrapped[..12]).unwrap(), Aad::empty(), &mut buf) {
                    Ok(p) => Ok(p.to_vec()),
                    Err(_) => Err(KmsError::OperationFailed("unwrap failed".into())),
                }
            }
            Kind::Token(_) => self.store.borrow().get(wrapped).cloned().ok_or_else(|| KmsError::InvalidKey("unknown handle".into())),
        }
    }
}

fn contains(hay: &[u8], needle: &[u8]) -> bool {
    !needle.is_empty() && hay.windows(needle.len()).any(|w| w == needle)
}

fn decrypt(p: &Provider, blob: &[u8]) -> Result<Result<Vec<u8>, KmsError>, String> {
    catch_unwind(AssertUnwindSafe(|| EnvelopeEncryption::decrypt_seed(p, blob))).map_err(|_| take_panics().join(" | "))
}

fn kind_sig(k: Kind) -> String {
    match k {
        Kind::AesWrap => "wrapped_len=60".into(),
        Kind::Token(l) if l < 32 => "wrapped_len<32".into(),
        Kind::Token(l) if l == 32 => "wrapped_len=32".into(),
        Kind::Token(_) => "wrapped_len>32".into(),
    }
}

fn tamper_check(out: &mut Out, p: &Provider, kind: Kind, pt: &[u8], blob: &[u8], t: &[u8], what: &str, pos: usize) {
    out.obs("tamperings", 1);
    let rep = || json!({"kind":"tamper","provider":format!("{:?}", kind),"plaintext":hex(pt),"blob":hex(blob),"tampered":hex(t),"what":what,"pos":pos});
    match decrypt(p, t) {
        Ok(Err(_)) => {}
        Ok(Ok(got)) => {
            let region = region_of(blob, pos);
            out.violation(
                &format!("C14 tamper accepted what={} region={} same-plaintext={}", what, region, got == pt),
                &format!("blob modified ({} at {}) still decrypts to {} plaintext", what, pos, if got == pt { "the same" } else { "a DIFFERENT" }),
                rep(),
            );
        }
        Err(pn) => out.violation(&format!("C14 tamper panic {} what={}", crate::c05::panic_site(&pn), what), &pn, rep()),
    }
}

fn region_of(blob: &[u8], pos: usize) -> &'static str {
    if blob.len() < 4 {
        return "?";
    }
    let dl = u16::from_le_bytes([blob[0], blob[1]]) as usize;
    if pos < 2 {
        "dek_len"
    } else if pos < 4 {
        "nonce_len"
    } else if pos < 4 + dl {
        "wrapped_dek"
    } else if pos < 4 + dl + 12 {
        "nonce"
    } else if pos + 16 < blob.len() {
        "ciphertext"
    } else {
        "tag"
    }
}

fn one_blob(out: &mut Out, rng: &mut Rng, kind: Kind, pt_len: usize, full: bool) {
    let p = Provider::new(kind, rng);
    let pt = rng.bytes(pt_len);
    out.case(fnv64(&pt), true);
    let desc = json!({"kind":"roundtrip","provider":format!("{:?}", kind),"plaintext":hex(&pt)});
    let blob = match catch_unwind(AssertUnwindSafe(|| EnvelopeEncryption::encrypt_seed(&p, &pt))) {
        Ok(Ok(b)) => b,
        Ok(Err(e)) => {
            out.violation(&format!("C14 encrypt fails {}", kind_sig(kind)), &format!("{:?}", e), desc);
            return;
        }
        Err(_) => {
            let pn = take_panics().join(" | ");
            out.violation(&format!("C14 encrypt panic {}", crate::c05::panic_site(&pn)), &pn, desc);
            return;
        }
    };
    out.obs("blobs", 1);
    out.obs_max("blob_len", blob.len() as i64);
    out.obs(&format!("provider_{}", kind_sig(kind)), 1);
    // round trip with the same provider
    match decrypt(&p, &blob) {
        Ok(Ok(got)) if got == pt => out.obs("roundtrips_ok", 1),
        Ok(Ok(_)) => out.violation(&format!("C14 roundtrip wrong-plaintext {}", kind_sig(kind)), "decrypt(encrypt(seed)) returned different bytes", desc.clone()),
        Ok(Err(e)) => out.violation(
            &format!("C14 roundtrip rejected {} plaintext={}", kind_sig(kind), if pt_len == 32 { "32" } else { ">32" }),
            &format!("decrypt(encrypt(seed)) with the same provider failed: {:?} (blob {} bytes, wrapped key {:?})", e, blob.len(), kind),
            desc.clone(),
        ),
        Err(pn) => out.violation(&format!("C14 roundtrip panic {}", crate::c05::panic_site(&pn)), &pn, desc.clone()),
    }
    // nothing secret inside the blob
    out.obs("leak_scans", 1);
    // any 8-byte window of a secret counts (a partial leak is a leak; a chance match is 2^-64)
    let window_hit = |secret: &[u8]| secret.windows(8).position(|w| contains(&blob, w));
    if let Some(off) = window_hit(&pt) {
        out.violation("C14 leak seed-in-blob", &format!("blob contains bytes {}.. of the plaintext seed", off), desc.clone());
    }
    for dek in p.seen_deks.borrow().iter() {
        if let Some(off) = window_hit(dek) {
            let at = blob.windows(8).position(|w| w == &dek[off..off + 8]).unwrap_or(0);
            out.violation(&format!("C14 leak dek-in-blob region={}", region_of(&blob, at)), &format!("blob contains bytes {}.. of the unwrapped data key at blob offset {}", off, at), desc.clone());
        }
    }
    if p.seen_deks.borrow().len() != 1 || p.seen_deks.borrow()[0].len() != 32 {
        out.note("encrypt_seed did not hand exactly one 32-byte data key to the provider");
    }
    // tampering: every position x (+1, 8 bit flips); every truncation; extensions 1..=64
    let positions: Vec<usize> = if full { (0..blob.len()).collect() } else { (0..blob.len()).filter(|i| *i < 8 || i % 7 == 0 || *i + 20 > blob.len()).collect() };
    for &i in &positions {
        let mut t = blob.clone();
        t[i] = t[i].wrapping_add(1);
        tamper_check(out, &p, kind, &pt, &blob, &t, "byte+1", i);
        for bit in 0..8 {
            let mut t = blob.clone();
            t[i] ^= 1 << bit;
            tamper_check(out, &p, kind, &pt, &blob, &t, "bit-flip", i);
        }
    }
    // "every single-byte modification": all 255 other values for the four length-field bytes,
    // and two random other values everywhere else (on top of +1 and the eight bit flips)
    for i in 0..blob.len() {
        if i < 4 {
            for v in 0..=255u8 {
                if v != blob[i] {
                    let mut t = blob.clone();
                    t[i] = v;
                    tamper_check(out, &p, kind, &pt, &blob, &t, "byte-any", i);
                }
            }
        } else if full || i % 5 == 0 {
            for _ in 0..2 {
                let v = rng.below(256) as u8;
                if v != blob[i] {
                    let mut t = blob.clone();
                    t[i] = v;
                    tamper_check(out, &p, kind, &pt, &blob, &t, "byte-any", i);
                }
            }
        }
    }
    // two-byte edits of the length fields (values near the type's limits)
    for (a, b) in [(0xffu8, 0xffu8), (0xf4, 0xff), (0xf3, 0xff), (0x00, 0x80), (0xff, 0x7f), (0x00, 0x00)] {
        for base in [0usize, 2] {
            let mut t = blob.clone();
            t[base] = a;
            t[base + 1] = b;
            if t != blob {
                tamper_check(out, &p, kind, &pt, &blob, &t, "length-field-pair", base);
            }
        }
    }
    for l in 0..blob.len() {
        if full || l < 140 || l + 70 > blob.len() {
            tamper_check(out, &p, kind, &pt, &blob, &blob[..l], "truncate", l);
        }
    }
    for k in 1..=64usize {
        let mut t = blob.clone();
        t.extend_from_slice(&rng.bytes(k));
        tamper_check(out, &p, kind, &pt, &blob, &t, "extend", blob.len());
        if k <= 8 {
            let mut t = blob.clone();
            t.extend_from_slice(&vec![0u8; k]);
            tamper_check(out, &p, kind, &pt, &blob, &t, "extend-zero", blob.len());
        }
    }
    // provider faults on the decrypt call
    for f in [Fault::DecryptErr, Fault::DecryptOtherKey, Fault::DecryptShortKey(0), Fault::DecryptShortKey(16), Fault::DecryptShortKey(31), Fault::DecryptShortKey(33), Fault::DecryptShortKey(64)] {
        *p.fault.borrow_mut() = f;
        out.obs("provider_faults", 1);
        match decrypt(&p, &blob) {
            Ok(Err(_)) => {}
            Ok(Ok(got)) => out.violation(&format!("C14 provider-fault accepted fault={:?}", f), &format!("decrypt returned Ok({} bytes, same={}) although the provider {:?}", got.len(), got == pt, f), desc.clone()),
            Err(pn) => out.violation(&format!("C14 provider-fault panic {} fault={:?}", crate::c05::panic_site(&pn), f), &pn, desc.clone()),
        }
    }
    *p.fault.borrow_mut() = Fault::None;
    // a different provider instance (different master key / empty store)
    let other = Provider::new(kind, rng);
    out.obs("provider_faults", 1);
    match decrypt(&other, &blob) {
        Ok(Err(_)) => {}
        Ok(Ok(_)) => out.violation("C14 provider-fault accepted fault=OtherProvider", "blob decrypts under a provider holding different keys", desc.clone()),
        Err(pn) => out.violation(&format!("C14 provider-fault panic {} fault=OtherProvider", crate::c05::panic_site(&pn)), &pn, desc.clone()),
    }
    // fault on the encrypt call
    *p.fault.borrow_mut() = Fault::EncryptErr;
    out.obs("provider_faults", 1);
    match catch_unwind(AssertUnwindSafe(|| EnvelopeEncryption::encrypt_seed(&p, &pt))) {
        Ok(Err(_)) => {}
        Ok(Ok(_)) => out.violation("C14 provider-fault accepted fault=EncryptErr", "encrypt_seed returned a blob although the provider failed", desc.clone()),
        Err(_) => {
            let pn = take_panics().join(" | ");
            out.violation(&format!("C14 provider-fault panic {} fault=EncryptErr", crate::c05::panic_site(&pn)), &pn, desc.clone())
        }
    }
    if out.samples.len() < 3 {
        out.sample(json!({"provider": format!("{:?}", kind), "plaintext_len": pt_len, "blob": hex(&blob), "tamper_positions": positions.len()}));
    }
}

pub fn run(ctx: &Ctx, out: &mut Out) {
    crate::inproc::install_shard_logger(ctx.shard, out);
    let mut rng = ctx.rng("C14");
    if let Some(r) = &ctx.replay {
        out.case(1, true);
        out.case(2, true);
        let prov = r["provider"].as_str().unwrap_or("AesWrap");
        let kind = if prov.starts_with("Token(") { Kind::Token(prov[6..prov.len() - 1].parse().unwrap()) } else { Kind::AesWrap };
        let pt = crate::prng::unhex(r["plaintext"].as_str().unwrap()).unwrap();
        // replays re-run the whole blob procedure for that provider kind and plaintext length
        one_blob(out, &mut rng, kind, pt.len(), true);
        return;
    }
    // enumerate (provider kind, plaintext length) pairs; shards take every n-th
    let mut work: Vec<(Kind, usize)> = Vec::new();
    let token_lens: Vec<usize> = if true {
        (16..=1024).step_by(1).collect()
    } else {
        (16..=1024usize).filter(|l| *l <= 40 || l % 8 == 0 || *l >= 1020 || [255, 257, 511, 513].contains(l)).collect()
    };
    for pt_len in 32..=64usize {
        work.push((Kind::AesWrap, pt_len));
    }
    for (i, l) in token_lens.iter().enumerate() {
        // every plaintext length appears with some token length; 32 always
        work.push((Kind::Token(*l), 32));
        work.push((Kind::Token(*l), 33 + (i % 32)));
    }
    let reps = if ctx.thorough { 80 } else { 1 };
    let mut n = 0u64;
    'o: for _ in 0..reps {
        for (k, (kind, pl)) in work.iter().enumerate() {
            if k as u64 % ctx.nshards != ctx.shard {
                continue;
            }
            // full position sweep for small blobs, strided sweep for large tokens in quick
            let full = true;
            one_blob(out, &mut rng, *kind, *pl, full);
            n += 1;
            if n % 4 == 0 && !ctx.time_left() {
                out.note("blob loop cut by wall budget");
                break 'o;
            }
        }
    }
    out.floor("blobs", 40);
    out.floor("tamperings", 50_000);
    out.floor("provider_faults", 300);
    out.floor("leak_scans", 40);
}
