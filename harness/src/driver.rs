//! Driver for the stepped in-process server: sends datagrams from harness sockets, steps
//! the server, proves quiescence with a sentinel, collects per-socket replies, and matches
//! replies to requests with the reference verifier.

use std::net::UdpSocket;
use std::time::SystemTime;

use crate::inproc::{client_socket, drain, reply_proto, HConfig, Inproc};
use crate::refimpl::crypto::{srv_value, Proto, RefKey};
use crate::refimpl::req::{self, Expect, ReqInfo};
use crate::refimpl::verify::{verify_response, Opts, ReqView, Verified};

pub struct Sent {
    pub sock: usize,
    pub data: Vec<u8>,
    pub expect: Expect,
    pub info: Option<ReqInfo>,
}

pub struct Reply {
    pub sock: usize,
    pub data: Vec<u8>,
    /// index into Round.sent of the request this reply verifies for
    pub matched: Option<usize>,
    pub verified: Option<Verified>,
    pub reason: Option<String>,
}

pub struct Round {
    pub sent: Vec<Sent>,
    pub replies: Vec<Reply>,
    pub panic: Option<String>,
    pub sentinel_replies: usize,
    pub sentinel_sent: usize,
    pub sentinel_bytes: usize,
    pub sentinel_verified: bool,
    pub t_before: SystemTime,
    pub t_after: SystemTime,
    pub drops_moved: bool,
    /// replies that arrived only after the sentinel (further traffic) was sent
    pub late_replies: usize,
}

/// pseudo socket index: send through the raw socket with UDP source port 0
pub const SPOOF_PORT0: usize = usize::MAX;

pub struct Driver {
    pub raw: Option<crate::inproc::RawUdp>,
    pub srv: Inproc,
    pub socks: Vec<UdpSocket>,
    pub cfg: HConfig,
    pub ref_pk: Vec<u8>,
    pub srv_value: Vec<u8>,
}

impl Driver {
    pub fn new(cfg: HConfig, nsocks: usize) -> Result<Driver, String> {
        let ref_pk = RefKey::from_seed(&cfg.seed).public();
        let sv = srv_value(&ref_pk);
        let srv = Inproc::start(cfg.clone())?;
        let socks = (0..nsocks).map(|_| client_socket()).collect();
        Ok(Driver { raw: crate::inproc::RawUdp::new(), srv, socks, cfg, ref_pk, srv_value: sv })
    }

    pub fn ensure_socks(&mut self, n: usize) {
        while self.socks.len() < n {
            self.socks.push(client_socket());
        }
    }

    /// One round: queue all datagrams, one process_events, then a sentinel (stepped until
    /// answered). `verify`: match and verify replies with the strict reference verifier.
    pub fn round(&mut self, sends: Vec<(usize, Vec<u8>)>, verify: bool) -> Round {
        self.round_opts(sends, verify, true)
    }

    /// `sentinel = false`: no sentinel request is sent (for rounds that consist of requests which
    /// must be answered anyway, when even the sentinel's own batch would disturb the scenario)
    pub fn round_opts(&mut self, sends: Vec<(usize, Vec<u8>)>, verify: bool, sentinel: bool) -> Round {
        let t_before = SystemTime::now();
        let mut sent = Vec::with_capacity(sends.len());
        for (s, d) in sends {
            let (mut expect, info) = req::expectation(&d, &self.srv_value);
            if s == SPOOF_PORT0 {
                // no reply can reach us (and none can be sent): nothing is demanded for this one
                match &self.raw {
                    Some(r) if r.send_from_port(0, self.srv.addr, &d) => {}
                    _ => continue,
                }
                if expect == Expect::Must {
                    expect = Expect::May;
                }
            } else {
                let _ = self.socks[s].send_to(&d, self.srv.addr);
            }
            sent.push(Sent { sock: s, data: d, expect, info });
        }
        let mut panic = None;
        if !sent.is_empty() {
            if let Err(p) = self.srv.step(1) {
                panic = Some(p);
            }
        }
        // a health-check connection that becomes ready between two process_events calls: the next
        // poll then returns a non-UDP event while a UDP backlog may still be waiting
        let mut _tcp_keep = Vec::new();
        if let (Some(hp), true) = (self.cfg.health_check_port, sent.len() > 64) {
            if let Ok(s) = std::net::TcpStream::connect_timeout(&format!("127.0.0.1:{}", hp).parse().unwrap(), std::time::Duration::from_millis(200)) {
                _tcp_keep.push(s);
            }
        }
        // Quiescence WITHOUT further traffic: keep stepping (each step returns at once while the
        // server reports a backlog, else after its 100 ms poll timeout) until every request that
        // must be answered has been, bounded by what the backlog could legitimately need. Replies
        // that show up only after the sentinel (= new traffic) were stranded.
        let must = sent.iter().filter(|s| s.expect == Expect::Must).count();
        let mut replies: Vec<Reply> = Vec::new();
        let collect = |socks: &Vec<UdpSocket>, replies: &mut Vec<Reply>| {
            for (i, s) in socks.iter().enumerate() {
                for d in drain(s) {
                    replies.push(Reply { sock: i, data: d, matched: None, verified: None, reason: None });
                }
            }
        };
        collect(&self.socks, &mut replies);
        let mut extra_steps = 0;
        while panic.is_none() && replies.len() < must && extra_steps < 3 + sent.len() / 32 {
            if let Err(p) = self.srv.step(1) {
                panic = Some(p);
            }
            extra_steps += 1;
            collect(&self.socks, &mut replies);
        }
        let before_sentinel = replies.len();
        let mut sentinel_replies = 0;
        let mut sentinel_sent = 0;
        let mut sentinel_bytes = 0;
        let mut sentinel_verified = false;
        if panic.is_none() && sentinel {
            // up to 60 sentinels: fault injection may spoil individual replies
            for _ in 0..60 {
                // one process_events call may legitimately stop before the socket is empty
                // (bounded work per call): allow as many steps as the backlog could need
                match self.srv.sentinel(6 + sent.len() / 16) {
                    Ok((reqb, nonce, got)) => {
                        sentinel_sent += 1;
                        sentinel_replies += got.len();
                        sentinel_bytes += got.iter().map(|g| g.len()).sum::<usize>();
                        let view = ReqView { proto: Proto::Classic, packet: &reqb, nonce };
                        if got.iter().any(|g| verify_response(&view, g, &self.ref_pk, Opts { strict: true }).is_ok()) {
                            sentinel_verified = true;
                            break;
                        }
                        if got.is_empty() || self.cfg.fault_percentage == 0 {
                            break;
                        }
                    }
                    Err(p) => {
                        panic = Some(p);
                        break;
                    }
                }
            }
        }
        let t_after = SystemTime::now();
        collect(&self.socks, &mut replies);
        let late_replies = replies.len() - before_sentinel;
        let drops_moved = self.srv.drops_moved();
        let mut round = Round { sent, replies, panic, sentinel_replies, sentinel_sent, sentinel_bytes, sentinel_verified, t_before, t_after, drops_moved, late_replies };
        if verify {
            self.match_replies(&mut round);
        }
        round
    }

    /// For every reply find an unmatched request from the same socket for which it verifies.
    pub fn match_replies(&self, r: &mut Round) {
        let mut taken = vec![false; r.sent.len()];
        for rep in r.replies.iter_mut() {
            let rp = reply_proto(&rep.data);
            let mut first_reason: Option<String> = None;
            for (i, s) in r.sent.iter().enumerate() {
                if taken[i] || s.sock != rep.sock {
                    continue;
                }
                let Some(info) = &s.info else { continue };
                if info.proto != rp {
                    continue;
                }
                let view = ReqView { proto: info.proto, packet: &s.data, nonce: info.nonce.clone() };
                match verify_response(&view, &rep.data, &self.ref_pk, Opts { strict: true }) {
                    Ok(v) => {
                        taken[i] = true;
                        rep.matched = Some(i);
                        rep.verified = Some(v);
                        break;
                    }
                    Err(e) => {
                        // prefer the reason from the request whose nonce the reply echoes
                        let echoes = contains(&rep.data, &info.nonce) && !info.nonce.is_empty();
                        if first_reason.is_none() || echoes {
                            first_reason = Some(e);
                        }
                    }
                }
            }
            if rep.matched.is_none() {
                rep.reason = Some(first_reason.unwrap_or_else(|| "no request of this protocol was sent from this socket".into()));
            }
        }
    }
}

pub fn contains(hay: &[u8], needle: &[u8]) -> bool {
    !needle.is_empty() && hay.len() >= needle.len() && hay.windows(needle.len()).any(|w| w == needle)
}

pub use crate::dgen::*;
