//! rtverif — runtime-verification harness for int08h/roughenough.
//! Invoked by /verif/check; one process per shard.

mod c01;
mod c02;
mod c04;
mod c05;
mod c07;
mod c08;
mod c09;
mod c10;
mod c12;
mod c13;
mod c14;
mod c15;
mod c16;
mod c17;
mod c18;
mod dgen;
mod driver;
mod procs;
mod codecgen;
mod inproc;
mod out;
mod prng;
mod refimpl {
    pub mod codec;
    pub mod crypto;
    pub mod req;
    pub mod responder;
    pub mod verify;
}

use std::alloc::{GlobalAlloc, Layout, System};
use std::path::PathBuf;
use std::sync::atomic::{AtomicI64, Ordering as AtomicOrdering};

/// Allocation-fault injector: when armed with n >= 0, the (n+1)-th allocation or reallocation of
/// at least 512 bytes fails once (returns null). Disarmed (-1) it is the system allocator plus
/// one relaxed load per call.
pub struct FaultAlloc;
pub static ALLOC_FAIL_IN: AtomicI64 = AtomicI64::new(-1);

impl FaultAlloc {
    #[inline]
    fn should_fail(size: usize) -> bool {
        if size < 512 || ALLOC_FAIL_IN.load(AtomicOrdering::Relaxed) < 0 {
            return false;
        }
        ALLOC_FAIL_IN.fetch_sub(1, AtomicOrdering::Relaxed) == 0
    }
}

unsafe impl GlobalAlloc for FaultAlloc {
    unsafe fn alloc(&self, l: Layout) -> *mut u8 {
        if Self::should_fail(l.size()) {
            return std::ptr::null_mut();
        }
        System.alloc(l)
    }
    unsafe fn dealloc(&self, p: *mut u8, l: Layout) {
        System.dealloc(p, l)
    }
    unsafe fn realloc(&self, p: *mut u8, l: Layout, new_size: usize) -> *mut u8 {
        if Self::should_fail(new_size) {
            return std::ptr::null_mut();
        }
        System.realloc(p, l, new_size)
    }
}

#[global_allocator]
static GLOBAL: FaultAlloc = FaultAlloc;
use std::time::{Duration, Instant};

fn arg(args: &[String], name: &str) -> Option<String> {
    args.iter().position(|a| a == name).and_then(|i| args.get(i + 1).cloned())
}

fn self_test() -> Result<(), String> {
    refimpl::codec::self_test()?;
    refimpl::crypto::self_test()?;
    refimpl::responder::self_test()?;
    Ok(())
}

fn main() {
    let args: Vec<String> = std::env::args().collect();
    if args.len() < 2 {
        eprintln!("usage: rtverif run <prop> --tier quick|thorough --seed N --shard i --nshards n --out file ...");
        std::process::exit(2);
    }
    match args[1].as_str() {
        "selftest" => match self_test() {
            Ok(()) => println!("oracle self-test ok"),
            Err(e) => {
                eprintln!("ORACLE SELF-TEST FAILED: {}", e);
                std::process::exit(2);
            }
        },
        "allocprobe" => c13::allocprobe(&args[2], args[3].parse().unwrap()),
        "cfgprobe" => c16::cfgprobe(&args[2]),
        "nestprobe" => c05::nestprobe(args[2].parse().unwrap(), &args[3], args.get(4).and_then(|s| s.parse().ok()).unwrap_or(0)),
        "run" => {
            let prop = args[2].clone();
            let ctx = out::Ctx {
                prop: prop.clone(),
                seed: arg(&args, "--seed").and_then(|s| s.parse().ok()).unwrap_or(1),
                shard: arg(&args, "--shard").and_then(|s| s.parse().ok()).unwrap_or(0),
                nshards: arg(&args, "--nshards").and_then(|s| s.parse().ok()).unwrap_or(1),
                thorough: arg(&args, "--tier").as_deref() == Some("thorough"),
                bins: PathBuf::from(arg(&args, "--bins").unwrap_or_default()),
                repo: PathBuf::from(arg(&args, "--repo").unwrap_or_else(|| "/repo".into())),
                verif: PathBuf::from(arg(&args, "--verif").unwrap_or_else(|| "/verif".into())),
                scratch: PathBuf::from(arg(&args, "--scratch").unwrap_or_else(|| "/verif/target/scratch".into())),
                start: Instant::now(),
                budget: Duration::from_secs_f64(arg(&args, "--budget").and_then(|s| s.parse().ok()).unwrap_or(60.0)),
                replay: arg(&args, "--replay").map(|p| {
                    let txt = std::fs::read_to_string(&p).expect("replay file");
                    let v: serde_json::Value = serde_json::from_str(&txt).expect("replay json");
                    v.get("replay").cloned().unwrap_or(v)
                }),
                mode: arg(&args, "--mode").unwrap_or_default(),
            };
            if let Err(e) = self_test() {
                eprintln!("ORACLE SELF-TEST FAILED: {}", e);
                std::process::exit(2);
            }
            procs::PORT_SHARD.store(ctx.shard as u32, std::sync::atomic::Ordering::Relaxed);
            // nothing a server signs may depend on the time zone of the process it lives in: the
            // in-process servers of half of the shards run in a non-UTC zone (set before any thread
            // exists)
            if matches!(prop.as_str(), "C11" | "C02" | "C09" | "C10") {
                const ZONES: [&str; 4] = ["UTC", "Asia/Tokyo", "America/New_York", "Australia/Lord_Howe"];
                std::env::set_var("TZ", ZONES[(ctx.shard % 4) as usize]);
            }
            inproc::install_panic_capture();
            let mut o = out::Out::new();
            if arg(&args, "--bins-profile").as_deref() == Some("release") {
                o.obs("shards_driving_release_profile_binaries", 1);
            } else {
                o.obs("shards_driving_checked_profile_binaries", 1);
            }
            match prop.as_str() {
                "C04" => c04::run(&ctx, &mut o),
                "C01" => c01::run_c01(&ctx, &mut o),
                "C03" => c01::run_c03(&ctx, &mut o),
                "C02" | "C09" => c09::run(&ctx, &mut o, &prop),
                "C07" => c07::run(&ctx, &mut o),
                "C08" | "C20" => c08::run(&ctx, &mut o, &prop),
                "C10" => c10::run_c10(&ctx, &mut o),
                "C11" => c10::run_c11(&ctx, &mut o),
                "C12" => c12::run(&ctx, &mut o),
                "C15" => c15::run(&ctx, &mut o),
                "C16" => c16::run(&ctx, &mut o),
                "C18" => c18::run_c18(&ctx, &mut o),
                "C19" => c18::run_c19(&ctx, &mut o),
                "C17" => c17::run(&ctx, &mut o),
                "C14" => c14::run(&ctx, &mut o),
                "C13" => c13::run(&ctx, &mut o),
                "C05" | "C06" => c05::run(&ctx, &mut o, &prop),
                _ => {
                    eprintln!("unknown property {}", prop);
                    std::process::exit(2);
                }
            }
            o.obs("client_sockets_on_ports_below_1024", inproc::LOW_PORT_SOCKETS.load(std::sync::atomic::Ordering::Relaxed) as i64);
            let j = o.to_json(&ctx);
            let path = arg(&args, "--out").expect("--out");
            std::fs::write(&path, serde_json::to_vec(&j).unwrap()).expect("write shard output");
        }
        other => {
            eprintln!("unknown subcommand {}", other);
            std::process::exit(2);
        }
    }
}
