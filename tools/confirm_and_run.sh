#!/bin/bash
# tools/confirm_and_run.sh <ID>... : confirm each delivered mutant, then run the property's quick check on it
for ID in "$@"; do
  for N in 1 2 3; do
    [ -f /tmp/mut/$ID-out/patch$N.diff ] || continue
    R=$(/verif/tools/confirm_mutant.sh $ID $N 2>&1 | tail -1); echo "$R"
    if echo "$R" | grep -q "demo-without=0 build-with=0" && echo "$R" | grep -q "47 passed" && ! echo "$R" | grep -q "demo-with=0"; then
      /verif/tools/run_mutant.sh /tmp/mut/$ID-out/patch$N.diff quick ${ID:0:3} 2>&1 | sed "s/^/   /"
    else
      echo "   NOT CONFIRMED"
    fi
  done
done
