//! C02 — every server response verifies under the independent spec-derived verifier;
//! with fault injection at p percent the failing share is p within statistical error.

use serde_json::json;

use crate::c09::*;
use crate::driver::*;
use crate::inproc::HConfig;
use crate::out::{Ctx, Out};
use crate::prng::{fnv64, Rng};

fn mixed_valid(rng: &mut Rng, srv: &[u8], k: usize, nsocks: usize, mix: u64) -> Vec<(usize, Vec<u8>)> {
    let mut v = mixed_valid_fresh(rng, srv, k, nsocks, mix);
    // now and then a client retransmits: the same datagram again, right behind the original
    if k >= 3 && rng.chance(1, 6) {
        let i = rng.usize_below(v.len() - 1);
        let dup = v[i].clone();
        v.insert(i + 1, dup);
    }
    v
}

fn mixed_valid_fresh(rng: &mut Rng, srv: &[u8], k: usize, nsocks: usize, mix: u64) -> Vec<(usize, Vec<u8>)> {
    (0..k)
        .map(|_| {
            let s = rng.usize_below(nsocks);
            let classic = match mix {
                0 => true,
                1 => false,
                _ => rng.chance(1, 2),
            };
            let d = if classic { valid_classic(rng).data } else { valid_ietf(rng, Some(srv)).data };
            (s, d)
        })
        .collect()
}

/// fault_percentage 0: long sequences of consecutive batches on one server
fn clean_history(out: &mut Out, rng: &mut Rng, batch_size: u8, nrounds: usize, idx: u64) {
    let mut cfg = HConfig::new(&rng.bytes(32));
    cfg.batch_size = batch_size;
    let nsocks = rng.range(1, 64) as usize;
    let Ok(mut d) = Driver::new(cfg.clone(), nsocks) else {
        out.inconclusive("server start failed");
        return;
    };
    let srv = d.srv_value.clone();
    let b = batch_size as usize;
    let mut rounds: Vec<Vec<(usize, Vec<u8>)>> = Vec::new();
    let mix = rng.below(4);
    let mut nreq = 0;
    for ri in 0..nrounds {
        // below, at and above batch_size
        let k = match ri % 5 {
            0 => b,
            1 => (b + 1).min(200),
            2 => b.saturating_sub(1).max(1),
            3 => (2 * b + rng.usize_below(b + 1)).min(200),
            _ => rng.range(1, (2 * b as u64).max(2)) as usize,
        };
        let sends = mixed_valid(rng, &srv, k, nsocks, mix);
        nreq += sends.len();
        rounds.push(sends.clone());
        // keep replays small: only the last two rounds are recorded in full
        if rounds.len() > 2 {
            rounds.remove(0);
        }
        let r = d.round(sends, true);
        let rp = || round_replay(&cfg, &rounds);
        if let Some(p) = &r.panic {
            out.violation(&format!("C02 server-panic {}", crate::c05::panic_site(p)), p, rp());
            return;
        }
        out.obs("rounds", 1);
        out.obs("datagrams_sent", r.sent.len() as i64);
        check_exactly_once(out, "C02", &r, &rp);
        check_batches(out, "C02", &r, cfg.batch_size, &rp);
        if r.drops_moved {
            out.inconclusive("kernel drop counter moved");
            return;
        }
    }
    out.case(fnv64(&cfg.seed) ^ idx, nreq >= 2);
    out.obs("clean_histories", 1);
    out.obs(&format!("clean_batch_size_cfg_{:02}", batch_size), 1);
    if out.samples.len() < 2 {
        out.sample(json!({"fault_percentage": 0, "batch_size": batch_size, "sockets": nsocks, "rounds": nrounds, "requests": nreq}));
    }
}

/// fault_percentage p: every reply verifies in full or not at all; count the failing share
fn greased(out: &mut Out, rng: &mut Rng, p: u8, batch_size: u8, want_replies: usize, idx: u64) -> (u64, u64) {
    let mut cfg = HConfig::new(&rng.bytes(32));
    cfg.batch_size = batch_size;
    cfg.fault_percentage = p;
    let nsocks = 32;
    let Ok(mut d) = Driver::new(cfg.clone(), nsocks) else {
        out.inconclusive("server start failed");
        return (0, 0);
    };
    let srv = d.srv_value.clone();
    let (mut total, mut failed) = (0u64, 0u64);
    while (total as usize) < want_replies {
        let sends = mixed_valid(rng, &srv, 100, nsocks, 2);
        let nsent = sends.len();
        let r = d.round(sends, true);
        if let Some(pn) = &r.panic {
            out.violation(&format!("C02 server-panic {}", crate::c05::panic_site(pn)), pn, json!({"kind":"greased","p":p}));
            return (total, failed);
        }
        if r.replies.len() != nsent && !r.drops_moved {
            out.violation("C02 greased reply-count differs", &format!("{} requests, {} replies at fault_percentage {}", nsent, r.replies.len(), p), json!({"kind":"greased","p":p}));
        }
        for rep in &r.replies {
            total += 1;
            if rep.matched.is_none() {
                failed += 1;
            }
        }
    }
    out.case(fnv64(&cfg.seed) ^ idx, true);
    out.obs("greased_runs", 1);
    out.obs("greased_replies", total as i64);
    out.obs("greased_replies_failing", failed as i64);
    (total, failed)
}

fn real_binary_grease(ctx: &Ctx, out: &mut Out, rng: &mut Rng) {
    use crate::procs::*;
    use crate::refimpl::crypto::{Proto, RefKey};
    let seed = rng.bytes(32);
    let pk = RefKey::from_seed(&seed).public();
    let p = [7u32, 30, 50, 12][((ctx.shard / 2 + ctx.seed) % 4) as usize]; // (p = 1 has too little power over 2400 replies)
    let mut cfg = SrvCfg::new(free_port(false), &seed);
    cfg.num_workers = Some(2);
    cfg.fault_percentage = Some(p);
    cfg.via_env = ctx.shard % 2 == 1;
    let Ok(mut sp) = spawn_server(&ctx.bins, &cfg, &ctx.scratch, "c02grease", None) else {
        out.inconclusive("spawn failed");
        return;
    };
    // readiness: any verifying reply (with p = 50 half of the attempts fail by design)
    if sp.wait_ready(&pk, std::time::Duration::from_secs(10)).is_err() {
        out.inconclusive("real server (fault injection on) not ready");
        return;
    }
    let s = std::net::UdpSocket::bind("127.0.0.1:0").unwrap();
    let (mut total, mut failed, mut silent) = (0u64, 0u64, 0u64);
    for i in 0..2_400 {
        let proto = if i % 2 == 0 { Proto::Classic } else { Proto::Ietf };
        match probe_on(&s, sp.cfg.port, &pk, proto, rng, std::time::Duration::from_millis(500)) {
            Ok(_) => total += 1,
            Err(e) if e.starts_with("no reply") => silent += 1,
            Err(_) => {
                total += 1;
                failed += 1;
            }
        }
        if silent > 24 {
            break;
        }
    }
    sp.signal(libc::SIGTERM);
    if sp.wait_exit(std::time::Duration::from_secs(5)).is_none() {
        sp.kill();
    }
    out.case(crate::prng::fnv64(&seed), true);
    if silent > 24 || total < 2_000 {
        out.inconclusive("real-binary grease window: too many unanswered probes");
        return;
    }
    let pf = p as f64 / 100.0;
    let sigma = (pf * (1.0 - pf) / total as f64).sqrt();
    let share = failed as f64 / total as f64;
    out.obs("greased_windows_tested_real_binary", 1);
    out.obs(&format!("greased_real_binary_source_{}", if cfg.via_env { "ENV" } else { "file" }), 1);
    let e = out.extra.entry("grease_shares").or_insert_with(|| json!([]));
    e.as_array_mut().unwrap().push(json!({"p": p, "origin": "real-binary", "source": if cfg.via_env { "ENV" } else { "file" }, "replies": total, "failing": failed, "share": share, "sigma": sigma, "deviation_in_sigma": (share - pf) / sigma}));
    if (share - pf).abs() > 6.0 * sigma {
        out.violation(
            &format!("C02 grease share-off p={} origin=real-binary source={}", p, if cfg.via_env { "ENV" } else { "file" }),
            &format!("real server with fault_percentage {}: {} of {} replies fail verification (share {:.4}, expected {:.4} +- 6*{:.4})", p, failed, total, share, pf, sigma),
            json!({"kind":"greased-real","p":p}),
        );
    }
}

pub fn run(ctx: &Ctx, out: &mut Out, rng: &mut Rng) {
    // (the fault-injection windows run first: their verdict is statistical and needs all of them)
    // (b) fault injection share: windows of >= 2000 replies per (p, batch_size). Several windows
    // with large batches per p, so that a fault decision shared by a whole batch (same mean,
    // inflated variance) shows up as windows outside the binomial 6-sigma band.
    let ps: Vec<u8> = if ctx.thorough { (1..=50).collect() } else { vec![10, 1, 50, 25] };
    let sizes: Vec<u8> = if ctx.thorough { vec![64, 64, 64, 16, 8, 1] } else { vec![64, 64, 64, 16] };
    let mut windows: Vec<(u8, u8)> = Vec::new();
    for p in &ps {
        for b in &sizes {
            windows.push((*p, *b));
        }
    }
    for (i, (p, bs)) in windows.iter().enumerate() {
        if i as u64 % ctx.nshards != ctx.shard {
            continue;
        }
        let (total, failed) = greased(out, rng, *p, *bs, 2_400, i as u64);
        if total >= 2_000 {
            let pf = *p as f64 / 100.0;
            let sigma = (pf * (1.0 - pf) / total as f64).sqrt();
            let share = failed as f64 / total as f64;
            out.obs("greased_windows_tested", 1);
            let e = out.extra.entry("grease_shares").or_insert_with(|| json!([]));
            e.as_array_mut().unwrap().push(json!({"p": p, "batch_size": bs, "replies": total, "failing": failed, "share": share, "sigma": sigma, "deviation_in_sigma": (share - pf) / sigma}));
            if (share - pf).abs() > 6.0 * sigma {
                out.violation(
                    &format!("C02 grease share-off p={}", p),
                    &format!("fault_percentage {} (batch_size {}): {} of {} replies fail verification (share {:.4}, expected {:.4} +- 6*{:.4})", p, bs, failed, total, share, pf, sigma),
                    json!({"kind":"greased","p":p,"batch_size":bs}),
                );
            }
        } else if total > 0 {
            out.inconclusive("too few greased replies");
        }
        if ctx.thorough && !ctx.time_left() {
            out.note("grease loop cut by wall budget");
            break;
        }
    }
    // (a) every configured batch_size once (quick) / several times (thorough), fault 0
    let reps = if ctx.thorough { 24 } else { 8 };
    let mut k = 0u64;
    'o: for rep in 0..reps {
        for bs in 1..=64u8 {
            k += 1;
            if k % ctx.nshards != ctx.shard {
                continue;
            }
            let nrounds = if ctx.thorough && rep % 4 == 0 { 200 } else if ctx.thorough { 30 } else { 16 };
            clean_history(out, rng, bs, nrounds, k);
            if !ctx.time_left() {
                out.note("clean loop cut by wall budget");
                break 'o;
            }
        }
    }
    // (c) the same share on the real binary, configured through the file and through the
    // environment (the in-process servers above get their settings from the harness directly)
    if ctx.shard < 4 || ctx.thorough {
        real_binary_grease(ctx, out, rng);
    }
    out.floor("replies_verified", 500);
    out.floor("batches_ge2_classic", 20);
    out.floor("batches_ge2_ietf", 20);
    out.floor("greased_windows_tested", 8);
}
