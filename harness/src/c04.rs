//! C04 — Merkle inclusion proofs are complete and binding for every batch shape, and a
//! reused tree behaves like a fresh one. Runs the real `MerkleTree` API.

use std::panic::{catch_unwind, AssertUnwindSafe};

use roughenough::merkle::MerkleTree;
use roughenough::version::Version;
use serde_json::json;

use crate::inproc::take_panics;
use crate::out::{Ctx, Out};
use crate::prng::{fnv64, hex, Rng};
use crate::refimpl::crypto::{self, Proto};

fn vname(v: Version) -> &'static str {
    match v {
        Version::Google => "google",
        Version::RfcDraft13 => "ietf",
    }
}

fn proto_of(v: Version) -> Proto {
    match v {
        Version::Google => Proto::Classic,
        Version::RfcDraft13 => Proto::Ietf,
    }
}

#[derive(Clone, Copy, Debug, PartialEq)]
enum LeafClass {
    Random,
    Nonce,
    Empty,
    AllEqual,
    PairEqual,
    Counter,
    /// long leaves (beyond any request size) that differ only after a long common prefix
    LongPrefix,
}

fn gen_leaves(rng: &mut Rng, n: usize, class: LeafClass, v: Version) -> Vec<Vec<u8>> {
    let mut out = Vec::with_capacity(n);
    let eq = rng.rbytes(0, 39);
    for i in 0..n {
        let l = match class {
            LeafClass::Random => {
                let len = match rng.below(6) {
                    0 => 0,
                    1 => rng.below(8),
                    2 => rng.range(1024, 1500),
                    _ => rng.range(1, 100),
                } as usize;
                let mut b = rng.bytes(len);
                // keep leaves pairwise distinct: prefix with the position
                b.extend_from_slice(&(i as u32).to_le_bytes());
                b
            }
            LeafClass::Nonce => rng.bytes(if v == Version::Google { 64 } else { 32 }),
            LeafClass::Empty => {
                if i == 0 {
                    vec![]
                } else {
                    (i as u32).to_le_bytes().to_vec()
                }
            }
            LeafClass::AllEqual => eq.clone(),
            LeafClass::PairEqual => {
                let mut b = eq.clone();
                b.push((i / 2) as u8);
                b
            }
            LeafClass::Counter => vec![i as u8],
            LeafClass::LongPrefix => {
                let mut b = vec![0x5a; 1400 + 37 * (n % 9) + 400 * (i % 3)];
                b.extend_from_slice(&(i as u32).to_le_bytes());
                b.extend_from_slice(&eq);
                b
            }
        };
        out.push(l);
    }
    out
}

fn distinct(leaves: &[Vec<u8>]) -> bool {
    let mut s = std::collections::HashSet::new();
    leaves.iter().all(|l| s.insert(l.clone()))
}

struct Built {
    root: Vec<u8>,
    paths: Vec<Vec<u8>>,
}

fn build_on(tree: &mut MerkleTree, leaves: &[Vec<u8>]) -> Built {
    for l in leaves {
        tree.push_leaf(l);
    }
    let root = tree.compute_root();
    let paths = (0..leaves.len()).map(|i| tree.get_paths(i)).collect();
    Built { root, paths }
}

fn replay_of(v: Version, history: &[Vec<Vec<u8>>], what: &str) -> serde_json::Value {
    // (a broken tree can produce hundreds of thousands of violations, each with a history of up
    // to 255 leaves: only the first few carry their full replay data)
    static CALLS: std::sync::atomic::AtomicU64 = std::sync::atomic::AtomicU64::new(0);
    if CALLS.fetch_add(1, std::sync::atomic::Ordering::Relaxed) >= 200 {
        return json!({"kind": "merkle", "version": vname(v), "what": what, "history": "omitted (more than 200 violations in this shard)"});
    }
    json!({"kind": "merkle", "version": vname(v), "what": what,
           "history": history.iter().map(|b| b.iter().map(|l| hex(l)).collect::<Vec<_>>()).collect::<Vec<_>>()})
}

/// completeness + binding on one built batch
fn check_batch(out: &mut Out, v: Version, tree: &MerkleTree, leaves: &[Vec<u8>], b: &Built, rng: &mut Rng, class: &str, history: &[Vec<Vec<u8>>], full_positions: bool) {
    let n = leaves.len();
    let w = node_width(v, tree);
    let is_distinct = distinct(leaves);
    let positions: Vec<usize> = if full_positions || n <= 8 { (0..n).collect() } else { vec![0, 1, n / 2, n - 2, n - 1, rng.usize_below(n)] };
    for &i in &positions {
        out.obs("paths_checked", 1);
        let p = &b.paths[i];
        let r = tree.root_from_paths(i, &leaves[i], p);
        if r != b.root {
            out.violation(
                &format!("C04 completeness version={} class={}", vname(v), class),
                &format!("n={} position {}: root_from_paths(get_paths(i)) differs from compute_root()", n, i),
                replay_of(v, history, "completeness"),
            );
            return;
        }
        if w == 0 || p.len() % w != 0 || (n > 1 && p.is_empty()) {
            out.violation(&format!("C04 path-shape version={}", vname(v)), &format!("n={} position {} path length {}", n, i, p.len()), replay_of(v, history, "shape"));
        }
        if !is_distinct {
            continue;
        }
        out.obs("binding_positions", 1);
        // another leaf at this position
        if n > 1 {
            let j = (i + 1 + rng.usize_below(n - 1)) % n;
            out.obs("binding_probes", 1);
            if tree.root_from_paths(i, &leaves[j], p) == b.root {
                out.violation(&format!("C04 binding other-leaf version={}", vname(v)), &format!("n={} path of position {} also proves leaf {}", n, i, j), replay_of(v, history, "other-leaf"));
            }
            // another in-range index
            for j in [(i + 1) % n, (i + n - 1) % n, rng.usize_below(n), i ^ 1] {
                if j != i && j < n {
                    out.obs("binding_probes", 1);
                    if tree.root_from_paths(j, &leaves[i], p) == b.root {
                        out.violation(&format!("C04 binding other-index version={}", vname(v)), &format!("n={} path of position {} also verifies at index {}", n, i, j), replay_of(v, history, "other-index"));
                    }
                }
            }
        }
        // a foreign leaf
        out.obs("binding_probes", 1);
        let foreign = rng.bytes(33);
        if tree.root_from_paths(i, &foreign, p) == b.root {
            out.violation(&format!("C04 binding foreign-leaf version={}", vname(v)), &format!("n={} position {}", n, i), replay_of(v, history, "foreign-leaf"));
        }
        let levels = if w > 0 { p.len() / w } else { 0 };
        if levels > 0 {
            // one element changed (every level for small trees, one random level otherwise)
            let lv: Vec<usize> = if levels <= 4 { (0..levels).collect() } else { vec![rng.usize_below(levels)] };
            for l in lv {
                let mut q = p.clone();
                q[l * w + rng.usize_below(w)] ^= 1 << rng.below(8);
                out.obs("binding_probes", 1);
                if tree.root_from_paths(i, &leaves[i], &q) == b.root {
                    out.violation(&format!("C04 binding changed-element version={}", vname(v)), &format!("n={} position {} level {}", n, i, l), replay_of(v, history, "changed-element"));
                }
            }
            // one element removed (last, first)
            for cut in [levels - 1, 0] {
                let mut q = p.clone();
                q.drain(cut * w..(cut + 1) * w);
                out.obs("binding_probes", 1);
                if tree.root_from_paths(i, &leaves[i], &q) == b.root {
                    out.violation(&format!("C04 binding removed-element version={}", vname(v)), &format!("n={} position {} removed level {}", n, i, cut), replay_of(v, history, "removed-element"));
                }
            }
        }
        // leaf/interior-node confusion: the concatenation of two sibling nodes, presented as a
        // "leaf" one level up with the path minus its first element, must not verify
        if levels > 0 {
            let lh = tree.root_from_paths(0, &leaves[i], &[]);
            let sib = &p[..w];
            let forged: Vec<u8> = if i % 2 == 0 { [lh.as_slice(), sib].concat() } else { [sib, lh.as_slice()].concat() };
            out.obs("binding_probes", 1);
            out.obs("forged_interior_leaf_probes", 1);
            if tree.root_from_paths(i >> 1, &forged, &p[w..]) == b.root {
                out.violation(&format!("C04 binding interior-node-accepted-as-leaf version={}", vname(v)), &format!("n={} position {}: the pair of sibling nodes, given as a leaf at index {} with the shortened path, recomputes the root", n, i, i >> 1), replay_of(v, history, "interior-as-leaf"));
            }
        }
        // a partial element appended (1..w-1 junk bytes): must not verify (a refusal by panic is fine)
        for extra in [1usize, w / 2, w - 1] {
            if extra == 0 || extra >= w {
                continue;
            }
            let mut q = p.clone();
            q.extend_from_slice(&rng.bytes(extra));
            out.obs("binding_probes", 1);
            out.obs("partial_element_probes", 1);
            let r = catch_unwind(AssertUnwindSafe(|| tree.root_from_paths(i, &leaves[i], &q)));
            match r {
                Ok(got) if got == b.root => out.violation(&format!("C04 binding partial-element-ignored version={}", vname(v)), &format!("n={} position {}: the path followed by {} stray bytes still recomputes the root", n, i, extra), replay_of(v, history, "partial-element")),
                Ok(_) => {}
                Err(_) => {
                    take_panics();
                }
            }
        }
        // one element appended (width: that of this profile's nodes; for n = 1 infer from root)
        let aw = w;
        for filler in [vec![0u8; aw], rng.bytes(aw)] {
            let mut q = p.clone();
            q.extend_from_slice(&filler);
            out.obs("binding_probes", 1);
            if tree.root_from_paths(i, &leaves[i], &q) == b.root {
                out.violation(&format!("C04 binding appended-element version={}", vname(v)), &format!("n={} position {}", n, i), replay_of(v, history, "appended-element"));
            }
        }
    }
}

/// Padding and interior positions opened as leaves: every node of the tree is known from the
/// issued paths (element L of leaf i's path is node (L, (i >> L) ^ 1)). A trivial leaf value
/// (empty, zeros) presented at the position of such a node, with the path that leads from that
/// node to the root, must not recompute the root.
fn opened_node_probes(out: &mut Out, v: Version, tree: &MerkleTree, leaves: &[Vec<u8>], b: &Built, history: &[Vec<Vec<u8>>]) {
    let n = leaves.len();
    let w = node_width(v, tree);
    if n < 2 || w == 0 || !distinct(leaves) {
        return;
    }
    let levels = b.paths[0].len() / w;
    let cands: Vec<Vec<u8>> = vec![vec![], vec![0u8], vec![0u8; 4], vec![0u8; 32], vec![0u8; 64], vec![0u8; w], vec![0xffu8; w]];
    // count of real nodes per level
    let mut count = vec![n];
    for l in 0..levels {
        count.push((count[l] + 1) / 2);
    }
    for l in 0..levels {
        // positions at level l whose sibling has a leaf below it: real nodes and the padding node
        let width_l = count[l] + (count[l] % 2);
        for pos in 0..width_l {
            if pos >= n {
                continue; // (the statement speaks of in-range indexes)
            }
            if l == 0 && pos < n {
                continue; // real leaves are covered by the other probes
            }
            let sib = pos ^ 1;
            // a leaf under the sibling (if the sibling is padding itself, take one under pos's parent)
            let j = (sib << l).min(n - 1);
            if (j >> l) != sib {
                continue;
            }
            let pj = &b.paths[j];
            if pj.len() < (l + 1) * w {
                continue;
            }
            // node (l, sib) is the hash chain of leaf j up to level l; rather than recomputing it,
            // take it from a path that holds it: element l of the path of a leaf under `pos`, or,
            // for a padding position (no leaf below), recompute j's ancestor with the tree itself
            let anc = {
                // ancestor of j at level l = root_from_paths over the first l elements
                tree.root_from_paths(j, &leaves[j], &pj[..l * w])
            };
            let mut forged_path = anc.clone();
            forged_path.truncate(w.max(anc.len().min(w)));
            if forged_path.len() != w {
                continue; // (the root of a sub-path may be cut differently; skip shapes we cannot build)
            }
            forged_path.extend_from_slice(&pj[(l + 1) * w..]);
            for c in &cands {
                out.obs("binding_probes", 1);
                out.obs("opened_node_probes", 1);
                let r = catch_unwind(AssertUnwindSafe(|| tree.root_from_paths(pos, c, &forged_path)));
                match r {
                    Ok(got) if got == b.root => {
                        out.violation(
                            &format!("C04 binding trivial-leaf-accepted-at-node-position version={}", vname(v)),
                            &format!("n={}: the leaf {:?} (never in the batch) at in-range index {} with the {}-element path from node (level {}, position {}) to the root recomputes the signed root", n, c, pos, forged_path.len() / w, l, pos),
                            replay_of(v, history, "opened-node"),
                        );
                        return;
                    }
                    Ok(_) => {}
                    Err(_) => {
                        take_panics();
                    }
                }
            }
        }
    }
}

/// node width as the tree itself uses it: length of a 2-leaf tree's path
fn node_width(v: Version, _t: &MerkleTree) -> usize {
    let mut t = MerkleTree::new(v);
    t.push_leaf(b"a");
    t.push_leaf(b"b");
    t.compute_root();
    t.get_paths(0).len()
}

/// one history (sequence of batches) on one reused tree, each compared with a fresh tree
fn run_history(out: &mut Out, v: Version, sizes: &[usize], class: LeafClass, rng: &mut Rng, full_positions: bool) {
    let mut history: Vec<Vec<Vec<u8>>> = Vec::new();
    let desc = fnv64(format!("{}{:?}{:?}{}", vname(v), sizes, class, rng.next_u64()).as_bytes());
    let r = catch_unwind(AssertUnwindSafe(|| {
        let mut reused = MerkleTree::new(v);
        let cname = format!("{:?}", class);
        for (k, &n) in sizes.iter().enumerate() {
            let leaves = gen_leaves(rng, n, class, v);
            history.push(leaves.clone());
            if k > 0 {
                reused.reset();
            }
            let b = build_on(&mut reused, &leaves);
            out.obs("batches_built", 1);
            out.obs_max("batch_size", n as i64);
            let mut fresh = MerkleTree::new(v);
            let f = build_on(&mut fresh, &leaves);
            if k > 0 {
                out.obs("reuse_comparisons", 1);
                if b.root != f.root || b.paths != f.paths {
                    out.violation(
                        &format!("C04 reuse differs-from-fresh version={}", vname(v)),
                        &format!("batch sizes {:?}: batch #{} on the reused tree gives a different {} than a fresh tree", sizes, k, if b.root != f.root { "root" } else { "path" }),
                        replay_of(v, &history, "reuse"),
                    );
                    return;
                }
            }
            check_batch(out, v, &reused, &leaves, &b, rng, &cname, &history, full_positions);
            if n <= 24 || rng.chance(1, 16) {
                opened_node_probes(out, v, &reused, &leaves, &b, &history);
            }
            // informational: agreement with the spec-derived tree (C02 carries that verdict)
            let p = proto_of(v);
            let lh: Vec<Vec<u8>> = leaves.iter().map(|l| crypto::hash_leaf(p, l)).collect();
            let (sroot, _) = crypto::build_tree(p, &lh, &mut |_| vec![0u8; p.width()]);
            out.obs(if sroot == b.root { "info_spec_root_agrees" } else { "info_spec_root_differs" }, 1);
        }
    }));
    out.case(desc, sizes.iter().any(|n| *n >= 2));
    if r.is_err() {
        let p = take_panics().join(" | ");
        out.violation(
            &format!("C04 panic {} version={}", crate::c05::panic_site(&p), vname(v)),
            &format!("Merkle API panicked on batch sizes {:?} class {:?}: {}", sizes, class, p),
            replay_of(v, &history, "panic"),
        );
    }
}

pub fn run(ctx: &Ctx, out: &mut Out) {
    crate::inproc::install_shard_logger(ctx.shard, out);
    let mut rng = ctx.rng("C04");
    if let Some(r) = &ctx.replay {
        let v = if r["version"] == "google" { Version::Google } else { Version::RfcDraft13 };
        let hist: Vec<Vec<Vec<u8>>> = r["history"]
            .as_array()
            .unwrap()
            .iter()
            .map(|b| b.as_array().unwrap().iter().map(|l| crate::prng::unhex(l.as_str().unwrap()).unwrap()).collect())
            .collect();
        out.case(1, true);
        out.case(2, true);
        let _ = catch_unwind(AssertUnwindSafe(|| {
            let mut reused = MerkleTree::new(v);
            for (k, leaves) in hist.iter().enumerate() {
                if k > 0 {
                    reused.reset();
                }
                let b = build_on(&mut reused, leaves);
                let mut fresh = MerkleTree::new(v);
                let f = build_on(&mut fresh, leaves);
                if b.root != f.root || b.paths != f.paths {
                    out.violation(&format!("C04 reuse differs-from-fresh version={}", vname(v)), "replayed", r.clone());
                }
                check_batch(out, v, &reused, leaves, &b, &mut rng, "replay", &hist[..=k].to_vec(), true);
            }
        }));
        if !take_panics().is_empty() {
            out.violation(&format!("C04 panic replay version={}", vname(v)), "panicked", r.clone());
        }
        return;
    }
    let versions = [Version::Google, Version::RfcDraft13];
    let classes = [LeafClass::Random, LeafClass::Nonce, LeafClass::Empty, LeafClass::AllEqual, LeafClass::PairEqual, LeafClass::Counter, LeafClass::LongPrefix];
    // (a) every leaf count 1..=255, every position, both profiles
    let mut work: Vec<(Version, usize, LeafClass)> = Vec::new();
    for v in versions {
        for n in 1..=255usize {
            for c in classes {
                        work.push((v, n, c));
            }
        }
    }
    for (k, (v, n, c)) in work.iter().enumerate() {
        if k as u64 % ctx.nshards != ctx.shard {
            continue;
        }
        run_history(out, *v, &[*n], *c, &mut rng, true);
        out.obs("sizes_all_positions", 1);
    }
    // (b) ordered pairs of batch sizes on one reused tree
    let lim = if ctx.thorough { 255 } else { 96 };
    let mut k = 0u64;
    let mut pairs_done = true;
    'outer: for v in versions {
        for a in 1..=lim {
            for b in 1..=lim {
                k += 1;
                if k % ctx.nshards != ctx.shard {
                    continue;
                }
                run_history(out, v, &[a, b], LeafClass::Random, &mut rng, false);
                out.obs("ordered_pairs", 1);
                if k % 256 < ctx.nshards && !ctx.time_left() {
                    pairs_done = false;
                    break 'outer;
                }
            }
        }
    }
    out.exhaustive = Some(pairs_done);
    out.extra.insert("pair_scope".into(), json!({"sizes": format!("1..={}", lim), "ordered_pairs_per_version": lim * lim, "completed": pairs_done}));
    // (c) random pairs over the whole range and longer sequences
    for i in 0..ctx.share(2_000, 400_000) {
        let v = *rng.pick(&versions);
        let a = rng.range(1, 255) as usize;
        let b = rng.range(1, 255) as usize;
        run_history(out, v, &[a, b], *rng.pick(&classes), &mut rng, false);
        out.obs("random_pairs", 1);
        if i % 16 == 0 && !ctx.time_left() {
            break;
        }
    }
    for i in 0..ctx.share(800, 100_000) {
        let v = *rng.pick(&versions);
        let len = rng.range(3, 8) as usize;
        let sizes: Vec<usize> = (0..len)
            .map(|_| match rng.below(4) {
                0 => rng.range(1, 4),
                1 => rng.range(1, 64),
                2 => *rng.pick(&[1u64, 2, 3, 4, 7, 8, 9, 15, 16, 17, 31, 32, 33, 63, 64, 65, 127, 128, 129, 254, 255]),
                _ => rng.range(1, 255),
            } as usize)
            .collect();
        run_history(out, v, &sizes, *rng.pick(&classes), &mut rng, false);
        out.obs("long_sequences", 1);
        if i % 8 == 0 && !ctx.time_left() {
            break;
        }
    }
    out.floor("paths_checked", 20_000);
    out.floor("binding_probes", 50_000);
    out.floor("reuse_comparisons", 1_000);
    out.floor("sizes_all_positions", 500);
}
