/* LD_PRELOAD shim for the clock-step scenario of C11: CLOCK_REALTIME as seen by the server
 * process is the real clock plus an offset (whole seconds) read from the file named in
 * RTVERIF_CLOCK_OFFSET_FILE at every call, so the harness can step the server's wall clock
 * while it runs. Monotonic clocks are untouched. */
#define _GNU_SOURCE
#include <dlfcn.h>
#include <fcntl.h>
#include <stdlib.h>
#include <time.h>
#include <unistd.h>

static int (*real_clock_gettime)(clockid_t, struct timespec *) = 0;

static long read_offset(void) {
    const char *p = getenv("RTVERIF_CLOCK_OFFSET_FILE");
    if (!p) return 0;
    int fd = open(p, O_RDONLY);
    if (fd < 0) return 0;
    char b[32];
    int n = (int)read(fd, b, 31);
    close(fd);
    if (n <= 0) return 0;
    b[n] = 0;
    return atol(b);
}

int clock_gettime(clockid_t c, struct timespec *ts) {
    if (!real_clock_gettime) real_clock_gettime = dlsym(RTLD_NEXT, "clock_gettime");
    int r = real_clock_gettime(c, ts);
    if (r == 0 && c == CLOCK_REALTIME) ts->tv_sec += read_offset();
    return r;
}
