//! C16 — effective settings equal the written ones (file or env), else start is refused.
//! A probe child process (`rtverif cfgprobe <ENV|file>`) calls the real make_config +
//! is_valid_config and prints every getter; suspicious acceptances are confirmed by starting
//! the real server binary on that configuration.

use std::panic::{catch_unwind, AssertUnwindSafe};
use std::process::Command;
use std::time::Duration;

use serde_json::{json, Value};

use crate::out::{Ctx, Out};
use crate::procs::*;
use crate::prng::{fnv64, hex, Rng};
use crate::refimpl::crypto::RefKey;

/// child side
pub fn cfgprobe(arg: &str) {
    // keep the probe quiet and isolated: panics are refusals
    std::panic::set_hook(Box::new(|_| {}));
    let r = catch_unwind(AssertUnwindSafe(|| {
        let cfg = match roughenough::config::make_config(arg) {
            Ok(c) => c,
            Err(e) => return json!({"refused": format!("make_config: {:?}", e)}),
        };
        if !roughenough::config::is_valid_config(cfg.as_ref()) {
            return json!({"refused": "is_valid_config"});
        }
        json!({
            "interface": cfg.interface(),
            "port": cfg.port(),
            "seed": hex(&cfg.seed()),
            "batch_size": cfg.batch_size(),
            "status_interval": cfg.status_interval().as_secs(),
            "health_check_port": cfg.health_check_port(),
            "client_stats": cfg.client_stats_enabled(),
            "persistence_directory": cfg.persistence_directory().map(|p| p.display().to_string()),
            "fault_percentage": cfg.fault_percentage(),
            "num_workers": cfg.num_workers() as u64,
            "kms_protection": cfg.kms_protection().to_string(),
        })
    }));
    match r {
        Ok(v) => println!("{}", v),
        Err(_) => println!("{}", json!({"refused": "panic"})),
    }
}

#[derive(Clone, Debug)]
pub struct Written {
    pub pairs: Vec<(String, String)>,
    pub via_env: bool,
}

fn run_probe(ctx: &Ctx, w: &Written, tag: &str) -> Result<Value, String> {
    let exe = std::env::current_exe().map_err(|e| e.to_string())?;
    let mut cmd = Command::new(exe);
    for (k, _) in std::env::vars() {
        if k.starts_with("ROUGHENOUGH_") {
            cmd.env_remove(k);
        }
    }
    if w.via_env {
        cmd.args(["cfgprobe", "ENV"]);
        // decoys: the same settings under names WITHOUT the documented prefix, as other software
        // in the same environment may define them; they are not this server's settings
        for (k, v) in [("PORT", "2002"), ("INTERFACE", "127.0.0.1"), ("SEED", "a32049da0ffde0ded92ce10a0230d35fe615ec8461c14986baa63fe3b3bac3db"), ("BATCH_SIZE", "13"), ("NUM_WORKERS", "3"), ("FAULT_PERCENTAGE", "11"), ("HOST", "127.0.0.1"), ("STATUS_INTERVAL", "77")] {
            cmd.env(k, v);
        }
        for (k, v) in &w.pairs {
            cmd.env(env_name(k), v);
        }
    } else {
        std::fs::create_dir_all(&ctx.scratch).ok();
        let path = ctx.scratch.join(format!("probe-{}.cfg", tag));
        let mut txt = String::new();
        // key order carries no meaning (unless verbatim lines make it part of the scenario)
        let mut pairs = w.pairs.clone();
        if !pairs.iter().any(|(k, _)| k.starts_with("__raw__")) {
            match fnv64(tag.as_bytes()) % 3 {
                1 => pairs.reverse(),
                2 => {
                    let n = pairs.len();
                    pairs.rotate_left(2 % n.max(1));
                }
                _ => {}
            }
        }
        for (k, v) in &pairs {
            if k.starts_with("__raw__") {
                txt.push_str(v);
                txt.push('\n');
            } else {
                txt.push_str(&format!("{}: {}\n", k, v));
            }
        }
        std::fs::write(&path, txt).map_err(|e| e.to_string())?;
        cmd.args(["cfgprobe", path.to_str().unwrap()]);
    }
    let (code, so, _se, wd) = run_with_timeout(cmd, Duration::from_secs(20)).map_err(|e| e.to_string())?;
    if wd {
        return Err("probe watchdog".into());
    }
    let txt = String::from_utf8_lossy(&so);
    let line = txt.lines().last().unwrap_or("");
    serde_json::from_str(line).map_err(|_| format!("probe exit {:?} without JSON (treated as refusal by abnormal exit)", code))
}

fn base_pairs(port: u16, seed: &[u8]) -> Vec<(String, String)> {
    vec![("interface".into(), "127.0.0.1".into()), ("port".into(), port.to_string()), ("seed".into(), hex(seed))]
}

fn with(mut p: Vec<(String, String)>, k: &str, v: &str) -> Vec<(String, String)> {
    p.retain(|(kk, _)| kk != k);
    p.push((k.to_string(), v.to_string()));
    p
}

fn in_range(key: &str, v: i64) -> bool {
    match key {
        "port" => (1..=65535).contains(&v),
        "batch_size" => (1..=64).contains(&v),
        "fault_percentage" => (0..=50).contains(&v),
        "num_workers" => v >= 1,
        "status_interval" => (1..=65535).contains(&v),
        "health_check_port" => (1..=65535).contains(&v),
        _ => true,
    }
}

fn getter_of(probe: &Value, key: &str) -> Option<i64> {
    probe.get(key).and_then(|x| x.as_i64())
}

/// Start the real server on exactly this written configuration; true iff it ends up serving
/// (on the port it effectively uses) -- i.e. the questionable value was NOT refused.
fn confirm_serving(ctx: &Ctx, w: &Written, effective_port: u16, seed: &[u8], tag: &str) -> (bool, String) {
    let mut cfg = SrvCfg::new(effective_port, seed);
    cfg.via_env = w.via_env;
    let Ok(mut sp) = spawn_server(&ctx.bins, &cfg, &ctx.scratch, tag, Some(w.pairs.clone())) else { return (false, "spawn failed".into()) };
    let pk = RefKey::from_seed(seed).public();
    let r = sp.wait_ready(&pk, Duration::from_secs(6));
    let threads = sp.thread_names();
    let workers = threads.iter().filter(|t| t.starts_with("worker-")).count();
    let info = format!("serving={} worker_threads={}", r.is_ok(), workers);
    sp.signal(libc::SIGTERM);
    if sp.wait_exit(Duration::from_secs(3)).is_none() {
        sp.kill();
    }
    (r.is_ok(), info)
}

fn judge_numeric(ctx: &Ctx, out: &mut Out, key: &str, v: i64, seed: &[u8], rng: &mut Rng, context: usize) {
    // the same written value through both sources
    let mut results: Vec<(bool, Result<Value, String>, Written)> = Vec::new();
    for via_env in [false, true] {
        let port = free_port(false);
        let mut pairs = base_pairs(port, seed);
        pairs = with(pairs, key, &v.to_string());
        if context == 1 {
            // the same value next to other, valid, optional settings: validation of one key must
            // not depend on (or be undone by) the others
            let dir = ctx.scratch.join("persist");
            std::fs::create_dir_all(&dir).ok();
            pairs = with(pairs, "client_stats", "on");
            pairs = with(pairs, "persistence_directory", dir.to_str().unwrap());
            if key != "status_interval" {
                pairs = with(pairs, "status_interval", "30");
            }
        }
        let w = Written { pairs, via_env };
        let tag = format!("{}-{}-{}-c{}", key, v, if via_env { "env" } else { "file" }, context);
        let r = run_probe(ctx, &w, &tag);
        out.obs("probe_runs", 1);
        results.push((via_env, r, w));
    }
    let src = |e: bool| if e { "env" } else { "file" };
    let ok_range = in_range(key, v);
    let mut effective: Vec<Option<i64>> = Vec::new();
    for (via_env, r, w) in &results {
        let desc = json!({"kind":"config","key":key,"written":v,"source":src(*via_env),"pairs": w.pairs.iter().map(|(k,x)| (k.clone(), if k=="seed" {"<seed>".into()} else {x.clone()})).collect::<Vec<_>>()});
        out.case(fnv64(format!("{}{}{}{}", key, v, via_env, context).as_bytes()), true);
        let cx = if context == 1 { " with-client_stats" } else { "" };
        let probe = match r {
            Ok(p) => p.clone(),
            Err(e) if e.contains("watchdog") => {
                out.inconclusive("probe watchdog");
                effective.push(None);
                continue;
            }
            Err(_) => json!({"refused": "abnormal exit"}),
        };
        if probe.get("refused").is_some() {
            out.obs(if ok_range { "in_range_refused" } else { "out_of_range_refused" }, 1);
            effective.push(None);
            if ok_range {
                out.violation(
                    &format!("C16 {} {} {} in-range-refused{}", src(*via_env), key, v, cx),
                    &format!("documented in-range value {}={} is refused through the {} source ({})", key, v, src(*via_env), probe["refused"]),
                    desc,
                );
            }
            continue;
        }
        let got = getter_of(&probe, key);
        effective.push(got);
        if ok_range {
            out.obs("in_range_accepted", 1);
            if got != Some(v) {
                // accepted but running with another value: confirm that the server really starts so
                let eff_port = probe["port"].as_u64().unwrap_or(0) as u16;
                let (serving, info) = confirm_serving(ctx, w, eff_port, seed, &format!("confirm-{}-{}-{}", key, v, src(*via_env)));
                out.obs("server_confirmations", 1);
                if serving {
                    out.violation(
                        &format!("C16 {} {} {}->{}{}", src(*via_env), key, v, got.map(|g| g.to_string()).unwrap_or("none".into()), cx),
                        &format!("{}={} written in the {} source, server runs with {:?} ({})", key, v, src(*via_env), got, info),
                        desc,
                    );
                } else {
                    out.obs("accepted_by_probe_but_start_failed", 1);
                }
            }
        } else {
            // out of range and not refused by the configuration layer: does the server actually run?
            let eff_port = probe["port"].as_u64().unwrap_or(0) as u16;
            let (serving, info) = confirm_serving(ctx, w, eff_port, seed, &format!("confirm-{}-{}-{}", key, v, src(*via_env)));
            out.obs("server_confirmations", 1);
            if serving {
                out.violation(
                    &format!("C16 {} {} {}->{}{}", src(*via_env), key, v, got.map(|g| g.to_string()).unwrap_or("none".into()), cx),
                    &format!("out-of-range {}={} in the {} source is not refused: the server starts and runs with {:?} ({})", key, v, src(*via_env), got, info),
                    desc,
                );
            } else {
                out.obs("out_of_range_refused", 1);
                out.obs("out_of_range_refused_at_start", 1);
            }
        }
    }
    let _ = rng;
    // both sources must agree for in-range values (for out-of-range both must refuse: checked above)
    if ok_range && effective.len() == 2 && effective[0] != effective[1] && effective[0].is_some() && effective[1].is_some() {
        out.obs("source_disagreements", 1);
    }
}

fn judge_refusal(ctx: &Ctx, out: &mut Out, what: &str, w: Written, seed: &[u8], must_refuse: bool, expect: Option<(&str, Value)>) {
    let tag = format!("r-{}-{}", fnv64(what.as_bytes()) % 100000, if w.via_env { "env" } else { "file" });
    let r = run_probe(ctx, &w, &tag);
    out.obs("probe_runs", 1);
    out.case(fnv64(format!("{}{}", what, w.via_env).as_bytes()), true);
    let src = if w.via_env { "env" } else { "file" };
    let desc = json!({"kind":"config","what":what,"source":src,"pairs": w.pairs.iter().map(|(k,x)| (k.clone(), if k=="seed" && x.len()==64 {"<seed>".to_string()} else {x.clone()})).collect::<Vec<_>>()});
    let probe = match r {
        Ok(p) => p,
        Err(e) if e.contains("watchdog") => {
            out.inconclusive("probe watchdog");
            return;
        }
        Err(_) => json!({"refused":"abnormal exit"}),
    };
    let refused = probe.get("refused").is_some();
    if must_refuse {
        if refused {
            out.obs("bad_config_refused", 1);
        } else {
            let eff_port = probe["port"].as_u64().unwrap_or(0) as u16;
            let (serving, info) = confirm_serving(ctx, &w, eff_port, seed, &format!("confirm-{}", tag));
            out.obs("server_confirmations", 1);
            if serving {
                out.violation(&format!("C16 {} not-refused {}", src, what), &format!("{}: configuration accepted and the server serves ({}); effective settings {}", what, info, probe), desc);
            } else {
                out.obs("bad_config_refused", 1);
            }
        }
    } else {
        if refused && what.starts_with("second-document") {
            // refusing a multi-document file is one of the two acceptable outcomes
            out.obs("bad_config_refused", 1);
        } else if refused {
            out.violation(&format!("C16 {} refused-valid {}", src, what), &format!("{}: a documented valid configuration is refused ({})", what, probe["refused"]), desc);
        } else {
            out.obs("good_config_accepted", 1);
            if let Some((k, want)) = expect {
                if probe[k] != want {
                    out.violation(&format!("C16 {} {} differs {}", src, k, what), &format!("{}: getter {} = {}, written {}", what, k, probe[k], want), desc);
                }
            }
        }
    }
}

pub fn run(ctx: &Ctx, out: &mut Out) {
    let mut rng = ctx.rng("C16");
    let seed = rng.bytes(32);
    if ctx.replay.is_some() {
        out.note("C16 replay re-runs the whole grid (it is small and deterministic)");
    }
    // numeric keys x boundary grid
    let grid: Vec<(&str, Vec<i64>)> = vec![
        ("port", vec![0, 1, 255, 256, 300, 8686, 65535, 65536, 70000, 131072 + 8686, -1, -300]),
        ("batch_size", vec![0, 1, 2, 32, 63, 64, 65, 255, 256, 257, 300, 320, 65535, 65536, 70000, -1, -300]),
        ("fault_percentage", vec![-1, -300, 0, 1, 10, 50, 51, 100, 255, 256, 266, 300, 306, 65536, 70000]),
        ("num_workers", vec![0, 1, 2, 3, 8, 16, 64, 255, 256, 257, 300, 1000, -1, -300]),
        ("status_interval", vec![1, 10, 255, 256, 300, 600, 65535]),
        ("health_check_port", vec![1024, 8000, 65535, 255, 256]),
    ];
    let mut work: Vec<(String, i64)> = Vec::new();
    for (k, vs) in &grid {
        for v in vs {
            work.push((k.to_string(), *v));
        }
    }
    for (i, (k, v)) in work.iter().enumerate() {
        if i as u64 % ctx.nshards != ctx.shard {
            continue;
        }
        let hv = if k == "health_check_port" { free_port(true) as i64 } else { *v };
        let v = if k == "health_check_port" && *v == 8000 { hv } else { *v };
        judge_numeric(ctx, out, k, v, &seed, &mut rng, 0);
        if !in_range(k, v) || i % 3 == 0 {
            judge_numeric(ctx, out, k, v, &seed, &mut rng, 1);
            out.obs("values_also_probed_with_other_settings", 1);
        }
        out.obs(&format!("key_{}", k), 1);
    }
    // missing required / unknown keys / seeds / client_stats / persistence_directory
    let mut extra: Vec<(String, Written, bool, Option<(&str, Value)>)> = Vec::new();
    let dir = ctx.scratch.join("persist");
    std::fs::create_dir_all(&dir).ok();
    for via_env in [false, true] {
        let port = free_port(false);
        let base = base_pairs(port, &seed);
        for missing in ["interface", "port", "seed"] {
            let p: Vec<_> = base.iter().filter(|(k, _)| k != missing).cloned().collect();
            extra.push((format!("missing-{}", missing), Written { pairs: p.clone(), via_env }, true, None));
            let p2 = with(with(p, "client_stats", "on"), "persistence_directory", dir.to_str().unwrap());
            extra.push((format!("missing-{}-with-client_stats", missing), Written { pairs: p2, via_env }, true, None));
        }
        extra.push(("minimal-valid".into(), Written { pairs: base.clone(), via_env }, false, Some(("port", json!(port)))));
        // dependencies between two settings: a value that coincides with another setting's value
        // is still the value written (health check is TCP, time service UDP: the same number is legal)
        {
            let ps = port.to_string();
            let same: Vec<(&str, &str, String)> = vec![
                ("health_check_port", "port", ps.clone()),
                ("status_interval", "port", ps.clone()),
                ("batch_size", "num_workers", "7".into()),
                ("batch_size", "fault_percentage", "50".into()),
                ("num_workers", "fault_percentage", "3".into()),
                ("status_interval", "batch_size", "64".into()),
                ("status_interval", "health_check_port", ps.clone()),
            ];
            for (a, b, v) in same {
                let p = with(with(base.clone(), a, &v), b, &v);
                let n: u64 = v.parse().unwrap();
                extra.push((format!("{}-equals-{} getter={}", a, b, a), Written { pairs: p.clone(), via_env }, false, Some((a, json!(n)))));
                extra.push((format!("{}-equals-{} getter={}", a, b, b), Written { pairs: p, via_env }, false, Some((b, json!(n)))));
            }
        }
        extra.push(("seed-roundtrip".into(), Written { pairs: base.clone(), via_env }, false, Some(("seed", json!(hex(&seed))))));
        extra.push(("seed-uppercase".into(), Written { pairs: with(base.clone(), "seed", &hex(&seed).to_uppercase()), via_env }, false, Some(("seed", json!(hex(&seed))))));
        for (name, s) in [
            ("seed-62-hex", hex(&seed)[..62].to_string()),
            ("seed-66-hex", format!("{}ab", hex(&seed))),
            ("seed-63-hex-odd", hex(&seed)[..63].to_string()),
            ("seed-non-hex", format!("{}zz", &hex(&seed)[..62])),
            ("seed-empty", "\"\"".to_string()),
        ] {
            if via_env && name == "seed-empty" {
                extra.push((name.into(), Written { pairs: with(base.clone(), "seed", ""), via_env }, true, None));
            } else {
                extra.push((name.into(), Written { pairs: with(base.clone(), "seed", &s), via_env }, true, None));
            }
        }
        // a valid seed consisting of decimal digits only (YAML would type it as a number)
        let digits: String = (0..64).map(|_| char::from(b'0' + rng.below(10) as u8)).collect();
        let digits = format!("1{}", &digits[1..]);
        extra.push(("seed-all-decimal-digits".into(), Written { pairs: with(base.clone(), "seed", &digits), via_env }, false, Some(("seed", json!(digits)))));
        let expo = format!("12e4{}", &digits[..60]);
        extra.push(("seed-looks-like-float".into(), Written { pairs: with(base.clone(), "seed", &expo), via_env }, false, Some(("seed", json!(expo)))));
        for (val, want) in [("on", true), ("yes", true), ("ON", true), ("Yes", true), ("off", false), ("no", false)] {
            let mut p = with(base.clone(), "client_stats", val);
            p = with(p, "persistence_directory", dir.to_str().unwrap());
            extra.push((format!("client_stats-{}", val), Written { pairs: p, via_env }, false, Some(("client_stats", json!(want)))));
        }
        let p = with(base.clone(), "persistence_directory", dir.to_str().unwrap());
        extra.push(("persistence_directory".into(), Written { pairs: with(p, "client_stats", "on"), via_env }, false, Some(("persistence_directory", json!(dir.to_str().unwrap())))));
        // a key written with an empty value is not a value: start-up must be refused
        for key in ["batch_size", "fault_percentage", "num_workers", "port", "status_interval", "health_check_port"] {
            if via_env {
                extra.push((format!("empty-value-{}", key), Written { pairs: with(base.clone(), key, ""), via_env }, true, None));
            } else {
                for (nm, v) in [("empty", ""), ("tilde", "~"), ("null", "null")] {
                    extra.push((format!("{}-value-{}", nm, key), Written { pairs: with(base.clone(), key, v), via_env }, true, None));
                }
            }
        }
        if !via_env {
            // a misspelt key with an empty value is still an unknown key
            extra.push(("unknown-key-empty-value".into(), Written { pairs: with(base.clone(), "batchsize", ""), via_env }, true, None));
            // a second YAML document: what is written after the separator must be honoured or the
            // file refused -- never silently dropped
            let mut p = base.clone();
            p.push(("__raw__sep".into(), "---".into()));
            p.push(("fault_percentage".into(), "90".into()));
            extra.push(("second-document-with-out-of-range-value".into(), Written { pairs: p, via_env }, true, None));
            let mut p = base.clone();
            p.push(("__raw__sep".into(), "---".into()));
            p.push(("batch_size".into(), "7".into()));
            extra.push(("second-document-with-batch_size-7".into(), Written { pairs: p, via_env }, false, Some(("batch_size", json!(7)))));
            // numbers that are not integers: an integer setting cannot "run with the value
            // written", so start-up must be refused (never a silently truncated value)
            for (key, vals) in [
                ("batch_size", vec!["7.5", "64.5", "0.9", ".nan", ".inf", "6.4e1x"]),
                ("fault_percentage", vec!["50.9", "0.5", "12.25", ".nan"]),
                ("num_workers", vec!["2.5", "0.99", "1e-1"]),
                ("status_interval", vec!["1.5", "0.1"]),
                ("port", vec![&format!("{}.5", port)[..], ".inf"].into_iter().map(|x| Box::leak(x.to_string().into_boxed_str()) as &str).collect()),
                ("health_check_port", vec!["8000.5"]),
            ] {
                for v in vals {
                    extra.push((format!("non-integer-{}-{}", key, v), Written { pairs: with(base.clone(), key, v), via_env }, true, None));
                }
            }
            // keys that YAML does not type as strings are unknown keys all the same
            for (nm, line) in [("integer", "16: batch_size"), ("integer-2", "8000: 1"), ("boolean", "true: on"), ("null", "~: 5"), ("float", "2.5: x"), ("list", "[a, b]: x"), ("map", "{a: b}: x")] {
                let mut p = base.clone();
                p.push(("__raw__k".into(), line.into()));
                extra.push((format!("unknown-key-typed-{}", nm), Written { pairs: p, via_env }, true, None));
            }
            // a file longer than a few KiB (a long comment block): what is written after the block
            // counts like anything else
            let block: String = (0..80).map(|i| format!("# {:-<70}\n", i)).collect();
            let mut p = vec![("__raw__c".to_string(), block.clone())];
            p.extend(base.clone());
            p.push(("batch_size".into(), "7".into()));
            extra.push(("long-comment-block-first".into(), Written { pairs: p, via_env }, false, Some(("batch_size", json!(7)))));
            let mut p = base.clone();
            p.push(("__raw__c".into(), block.clone()));
            p.push(("batch_size".into(), "9".into()));
            extra.push(("setting-after-long-comment-block".into(), Written { pairs: p, via_env }, false, Some(("batch_size", json!(9)))));
            let mut p = base.clone();
            p.push(("__raw__c".into(), block.clone()));
            p.push(("fault_percentage".into(), "90".into()));
            extra.push(("out-of-range-after-long-comment-block".into(), Written { pairs: p, via_env }, true, None));
            let mut p = base.clone();
            p.push(("__raw__c".into(), block.clone()));
            p.push(("no_such_setting".into(), "1".into()));
            extra.push(("unknown-key-after-long-comment-block".into(), Written { pairs: p, via_env }, true, None));
            // a number that straddles byte 4096 of the file
            for pad in [4085usize, 4090, 4094] {
                let mut p: Vec<(String, String)> = Vec::new();
                let head = format!("interface: 127.0.0.1\nseed: {}\n", hex(&seed));
                let fill = pad.saturating_sub(head.len() + "# \nport: ".len());
                p.push(("__raw__h".into(), format!("{}# {}", head, "x".repeat(fill))));
                p.push(("port".into(), port.to_string()));
                extra.push((format!("port-straddling-byte-4096-pad{}", pad), Written { pairs: p, via_env }, false, Some(("port", json!(port)))));
            }
            extra.push(("unknown-key".into(), Written { pairs: with(base.clone(), "no_such_setting", "1"), via_env }, true, None));
            extra.push(("unknown-key-typo".into(), Written { pairs: with(base.clone(), "batchsize", "8"), via_env }, true, None));
        }
    }
    for (i, (what, w, must_refuse, expect)) in extra.into_iter().enumerate() {
        if i as u64 % ctx.nshards != ctx.shard {
            continue;
        }
        judge_refusal(ctx, out, &what, w, &seed, must_refuse, expect);
    }
    // a relative persistence_directory means the same thing from both sources: relative to the
    // directory the server is started in, wherever the configuration file lives
    if ctx.shard % 4 == 2 {
        let cwd = ctx.scratch.join("reldir-cwd");
        let conf = ctx.scratch.join("reldir-conf");
        std::fs::create_dir_all(cwd.join("stats-rel")).ok();
        std::fs::create_dir_all(&conf).ok();
        let port = free_port(false);
        let cfgpath = conf.join("server.cfg");
        let _ = std::fs::write(&cfgpath, format!("interface: 127.0.0.1\nport: {}\nseed: {}\nclient_stats: on\npersistence_directory: stats-rel\n", port, hex(&seed)));
        for via_env in [false, true] {
            let mut cmd = Command::new(std::env::current_exe().unwrap());
            cmd.current_dir(&cwd);
            for (k, _) in std::env::vars() {
                if k.starts_with("ROUGHENOUGH_") {
                    cmd.env_remove(k);
                }
            }
            if via_env {
                cmd.args(["cfgprobe", "ENV"]);
                cmd.env("ROUGHENOUGH_INTERFACE", "127.0.0.1").env("ROUGHENOUGH_PORT", port.to_string()).env("ROUGHENOUGH_SEED", hex(&seed)).env("ROUGHENOUGH_CLIENT_STATS", "on").env("ROUGHENOUGH_PERSISTENCE_DIRECTORY", "stats-rel");
            } else {
                cmd.args(["cfgprobe", cfgpath.to_str().unwrap()]);
            }
            let Ok((_, so, _, wd)) = run_with_timeout(cmd, Duration::from_secs(20)) else { continue };
            if wd {
                out.inconclusive("probe watchdog");
                continue;
            }
            let txt = String::from_utf8_lossy(&so);
            let probe: Value = serde_json::from_str(txt.lines().last().unwrap_or("")).unwrap_or(json!({"refused":"abnormal exit"}));
            out.obs("probe_runs", 1);
            out.obs("relative_persistence_directory_cases", 1);
            out.case(fnv64(format!("reldir{}", via_env).as_bytes()), true);
            let src = if via_env { "env" } else { "file" };
            let desc = json!({"kind":"config","what":"relative persistence_directory, configuration file in another directory than the working directory","source":src});
            if probe.get("refused").is_some() {
                out.violation(&format!("C16 {} refused-valid persistence_directory-relative", src), &format!("persistence_directory: stats-rel (exists in the working directory) is refused: {}", probe["refused"]), desc);
            } else if probe["persistence_directory"] != json!("stats-rel") {
                out.violation(&format!("C16 {} persistence_directory differs relative-path", src), &format!("written stats-rel, effective {}", probe["persistence_directory"]), desc);
            }
        }
    }
    // a configuration FILE that happens to be called env / Env (only the exact argument "ENV"
    // selects the environment): the file's settings count, not the ROUGHENOUGH_* variables the
    // process also carries
    if ctx.shard % 4 == 1 {
        for name in ["env", "Env", "eNV", "ENV.cfg", "./ENV"] {
            let dir = ctx.scratch.join(format!("envnamed-{}", fnv64(name.as_bytes()) % 1000));
            std::fs::create_dir_all(&dir).ok();
            let (pa, pb) = (free_port(false), free_port(false));
            let file_name = name.trim_start_matches("./");
            if name == "./ENV" {
                // (written so that the argument is not the bare word)
            }
            let _ = std::fs::write(dir.join(file_name), format!("interface: 127.0.0.1\nport: {}\nseed: {}\nbatch_size: 8\n", pa, hex(&seed)));
            let mut cmd = Command::new(std::env::current_exe().unwrap());
            cmd.current_dir(&dir).args(["cfgprobe", name]);
            cmd.env("ROUGHENOUGH_INTERFACE", "127.0.0.1").env("ROUGHENOUGH_PORT", pb.to_string()).env("ROUGHENOUGH_SEED", hex(&seed)).env("ROUGHENOUGH_BATCH_SIZE", "33").env("ROUGHENOUGH_FAULT_PERCENTAGE", "50");
            let Ok((_, so, _, wd)) = run_with_timeout(cmd, Duration::from_secs(20)) else { continue };
            if wd {
                out.inconclusive("probe watchdog");
                continue;
            }
            let txt = String::from_utf8_lossy(&so);
            let probe: Value = serde_json::from_str(txt.lines().last().unwrap_or("")).unwrap_or(json!({"refused":"abnormal exit"}));
            out.obs("probe_runs", 1);
            out.obs("file_named_like_the_env_selector_cases", 1);
            out.case(fnv64(format!("envnamed{}", name).as_bytes()), true);
            let desc = json!({"kind":"config","what":format!("file named {}", name),"source":"file"});
            if probe.get("refused").is_some() {
                out.violation(&format!("C16 file refused-valid file-named-{}", name), &format!("a valid configuration file called {:?} is refused: {}", name, probe["refused"]), desc);
            } else if probe["port"] != json!(pa) || probe["batch_size"] != json!(8) || probe["fault_percentage"] != json!(0) {
                out.violation(
                    &format!("C16 file settings-ignored file-named-{}", name),
                    &format!("configuration file {:?} says port {} / batch_size 8 / no faults, effective: port {} batch_size {} fault_percentage {} (the environment said {} / 33 / 50)", name, pa, probe["port"], probe["batch_size"], probe["fault_percentage"], pb),
                    desc,
                );
            }
        }
    }
    // thorough: random in-range combinations, both sources, all getters compared
    {
        for k in 0..ctx.share(2_000, 20_000) {
            let port = free_port(false);
            let bs = rng.range(1, 64);
            let fp = rng.range(0, 50);
            let nw = rng.range(1, 16);
            let si = rng.range(1, 65535);
            for via_env in [false, true] {
                let mut p = base_pairs(port, &seed);
                p = with(p, "batch_size", &bs.to_string());
                p = with(p, "fault_percentage", &fp.to_string());
                p = with(p, "num_workers", &nw.to_string());
                p = with(p, "status_interval", &si.to_string());
                let w = Written { pairs: p, via_env };
                let r = run_probe(ctx, &w, &format!("combo{}", k));
                out.obs("probe_runs", 1);
                out.obs("combo_probes", 1);
                out.case(fnv64(format!("combo{}{}{}{}{}", port, bs, fp, nw, via_env).as_bytes()), true);
                if let Ok(pr) = r {
                    for (key, want) in [("port", port as u64), ("batch_size", bs), ("fault_percentage", fp), ("num_workers", nw), ("status_interval", si)] {
                        if pr.get("refused").is_some() || pr[key].as_u64() != Some(want) {
                            out.violation(
                                &format!("C16 {} {} combo-differs", if via_env { "env" } else { "file" }, key),
                                &format!("combination batch_size={} fault={} workers={} interval={}: getter {} = {}", bs, fp, nw, si, key, pr[key]),
                                json!({"kind":"config-combo"}),
                            );
                        }
                    }
                }
            }
            if !ctx.time_left() {
                break;
            }
        }
    }
    effective_on_running_server(ctx, out, &mut rng, &seed);
    out.sample(json!({"key": "batch_size", "written": 300, "source": "file", "expected": "refused (documented range 1-64)"}));
    out.sample(json!({"key": "num_workers", "written": 3, "source": "env", "expected": "num_workers getter == 3"}));
    out.floor("probe_runs", 100);
    out.floor("running_server_spot_checks", 6);
    out.floor("out_of_range_refused", 20);
    out.floor("in_range_accepted", 30);
    out.floor("bad_config_refused", 10);
    out.floor("good_config_accepted", 10);
}


/// Spot checks on the RUNNING binary: the getters can be right while the server runs with
/// something else. num_workers = number of distinct worker-N threads; batch_size = size of the
/// first signed batch when more than batch_size requests were queued while the process was
/// stopped (SIGSTOP), and no batch larger than it.
fn effective_on_running_server(ctx: &Ctx, out: &mut Out, rng: &mut Rng, seed: &[u8]) {
    use crate::refimpl::crypto::Proto;
    use crate::refimpl::verify::{verify_response, Opts, ReqView};
    let pk = RefKey::from_seed(seed).public();
    let plan: Vec<(&str, u32)> = vec![("num_workers", 1), ("num_workers", 3), ("num_workers", 19), ("batch_size", 1), ("batch_size", 2), ("batch_size", 5), ("batch_size", 64), ("num_workers", 17), ("batch_size", 33), ("fault_percentage", 50), ("fault_percentage", 1), ("fault_percentage", 25), ("health_check_port_busy", 0), ("fault_percentage", 49), ("num_workers_pinned", 4), ("num_workers_pinned", 3)];
    for (i, (key, v)) in plan.iter().enumerate() {
        if i as u64 % ctx.nshards != ctx.shard {
            continue;
        }
        let via_env = i % 2 == 1;
        let mut cfg = SrvCfg::new(free_port(false), seed);
        cfg.via_env = via_env;
        let mut held: Option<std::net::TcpListener> = None;
        match *key {
            "num_workers" => cfg.num_workers = Some(*v),
            "num_workers_pinned" => {
                // more workers written than CPUs the process may use
                cfg.num_workers = Some(*v);
                cfg.pin = Some("0,1".into());
            }
            "fault_percentage" => {
                cfg.fault_percentage = Some(*v);
                cfg.num_workers = Some(2);
            }
            "health_check_port_busy" => {
                // the written health-check port is held by somebody else: the server cannot run with
                // the written value, so it must not run at all
                let hp = free_port(true);
                held = std::net::TcpListener::bind(("127.0.0.1", hp)).ok();
                cfg.health_check_port = Some(hp);
                cfg.num_workers = Some(1);
            }
            _ => {
                cfg.batch_size = Some(*v);
                cfg.num_workers = Some(1);
            }
        }
        if *key == "health_check_port_busy" {
            let Ok(mut sp) = spawn_server(&ctx.bins, &cfg, &ctx.scratch, &format!("eff{}", i), None) else { continue };
            let ready = sp.wait_ready(&pk, Duration::from_secs(4)).is_ok();
            out.obs("running_server_spot_checks", 1);
            out.case(fnv64(format!("effbusy{}", via_env).as_bytes()), true);
            if ready && held.is_some() {
                out.violation(
                    &format!("C16 {} health_check_port written-but-not-in-effect", if via_env { "env" } else { "file" }),
                    "health_check_port is set to a port another process listens on; the server nevertheless starts and serves time without the configured health check",
                    json!({"kind":"running-server-spot-check","key":"health_check_port","source": if via_env {"env"} else {"file"}}),
                );
            }
            sp.kill();
            continue;
        }
        let Ok(mut sp) = spawn_server(&ctx.bins, &cfg, &ctx.scratch, &format!("eff{}", i), None) else { continue };
        if sp.wait_ready(&pk, Duration::from_secs(10)).is_err() {
            out.inconclusive("spot-check server not ready");
            continue;
        }
        std::thread::sleep(Duration::from_millis(300));
        let desc = json!({"kind":"running-server-spot-check","key":key,"written":v,"source": if via_env {"env"} else {"file"}});
        out.obs("running_server_spot_checks", 1);
        out.case(fnv64(format!("eff{}{}{}", key, v, via_env).as_bytes()), true);
        if *key == "fault_percentage" {
            // the share of replies that fail verification must be the written percentage
            let n = 600usize;
            let mut failing = 0usize;
            let mut answered = 0usize;
            for _ in 0..n {
                match probe(sp.cfg.port, &pk, if rng.chance(1, 2) { Proto::Classic } else { Proto::Ietf }, rng, Duration::from_millis(500)) {
                    Ok(_) => answered += 1,
                    Err(e) if e.starts_with("reply does not verify") => {
                        answered += 1;
                        failing += 1;
                    }
                    Err(_) => {}
                }
            }
            if answered >= 500 {
                let pf = *v as f64 / 100.0;
                let sigma = (pf * (1.0 - pf) / answered as f64).sqrt();
                let share = failing as f64 / answered as f64;
                out.obs("running_server_fault_rate_checks", 1);
                if (share - pf).abs() > 6.0 * sigma + 0.002 {
                    out.violation(
                        &format!("C16 {} fault_percentage {}->{:.0} on-running-server", if via_env { "env" } else { "file" }, v, share * 100.0),
                        &format!("fault_percentage={} written; {} of {} replies of the running server fail verification (share {:.3}, expected {:.3} +- 6*{:.3})", v, failing, answered, share, pf, sigma),
                        desc.clone(),
                    );
                }
            } else {
                out.inconclusive("fault-rate spot check: too few replies");
            }
        } else if key.starts_with("num_workers") {
            // the main thread may still be spawning workers when the first of them already answers:
            // the count is taken once it has been stable at the written number, or after 3 s
            let count = |sp: &ServerProc| sp.thread_names().into_iter().filter(|n| n.starts_with("worker-")).collect::<std::collections::HashSet<String>>();
            let t0 = std::time::Instant::now();
            let mut names = count(&sp);
            while names.len() < *v as usize && t0.elapsed() < Duration::from_secs(3) {
                std::thread::sleep(Duration::from_millis(50));
                names = count(&sp);
            }
            if names.len() == *v as usize {
                // (and it does not grow beyond it either)
                std::thread::sleep(Duration::from_millis(150));
                names = count(&sp);
            }
            if names.len() != *v as usize {
                out.violation(
                    &format!("C16 {} num_workers {}->{} on-running-server", if via_env { "env" } else { "file" }, v, names.len()),
                    &format!("num_workers={} written, the running server has {} distinct worker threads", v, names.len()),
                    desc.clone(),
                );
            }
        } else {
            let bs = *v as usize;
            let burst = (2 * bs + 3).min(80);
            let addr: std::net::SocketAddr = format!("127.0.0.1:{}", sp.cfg.port).parse().unwrap();
            let socks: Vec<std::net::UdpSocket> = (0..burst).map(|_| std::net::UdpSocket::bind("127.0.0.1:0").unwrap()).collect();
            sp.signal(libc::SIGSTOP);
            std::thread::sleep(Duration::from_millis(10));
            let mut reqs = Vec::new();
            for s in &socks {
                let (pkt, nonce) = make_request(rng, Proto::Classic, None);
                let _ = s.send_to(&pkt, addr);
                reqs.push((pkt, nonce));
            }
            sp.signal(libc::SIGCONT);
            let mut groups: std::collections::HashMap<Vec<u8>, usize> = std::collections::HashMap::new();
            let mut order: Vec<Vec<u8>> = Vec::new();
            let mut got = 0;
            for (s, (pkt, nonce)) in socks.iter().zip(reqs.iter()) {
                s.set_read_timeout(Some(Duration::from_millis(2000))).unwrap();
                let mut buf = vec![0u8; 4096];
                if let Ok((n, _)) = s.recv_from(&mut buf) {
                    let view = ReqView { proto: Proto::Classic, packet: pkt, nonce: nonce.clone() };
                    if let Ok(ver) = verify_response(&view, &buf[..n], &pk, Opts { strict: true }) {
                        got += 1;
                        if !groups.contains_key(&ver.srep) {
                            order.push(ver.srep.clone());
                        }
                        *groups.entry(ver.srep).or_insert(0) += 1;
                    }
                }
            }
            if got == burst {
                let largest = groups.values().copied().max().unwrap_or(0);
                // requests are read in arrival order, so the first socket's reply belongs to the first batch
                let first = order.first().map(|s| groups[s]).unwrap_or(0);
                out.obs("running_server_bursts_grouped", 1);
                if largest > bs || first != bs.min(burst) {
                    out.violation(
                        &format!("C16 {} batch_size {}->{} on-running-server", if via_env { "env" } else { "file" }, bs, first),
                        &format!("batch_size={} written; {} requests queued while the server was stopped were signed in batches {:?} (first batch {}, largest {})", bs, burst, order.iter().map(|s| groups[s]).collect::<Vec<_>>(), first, largest),
                        desc.clone(),
                    );
                }
            } else {
                out.inconclusive("spot-check burst not fully answered (C18's business)");
            }
        }
        sp.signal(libc::SIGTERM);
        if sp.wait_exit(Duration::from_secs(5)).is_none() {
            sp.kill();
        }
    }
}
