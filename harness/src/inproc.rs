//! A real roughenough `Server` living in a named thread of the harness process, stepped
//! one `process_events` call at a time by the harness. All observation is at the socket
//! boundary (plus the captured log records and caught panics).

use std::net::{SocketAddr, UdpSocket};
use std::os::unix::io::AsRawFd;
use std::panic::{catch_unwind, AssertUnwindSafe};
use std::path::PathBuf;
use std::sync::mpsc::{channel, Receiver, Sender};
use std::sync::{Arc, Mutex};
use std::thread::JoinHandle;
use std::time::{Duration, Instant};

use roughenough::config::ServerConfig;
use roughenough::key::KmsProtection;
use roughenough::server::Server;
use roughenough::stats::StatsQueue;

use crate::refimpl::crypto::Proto;
use crate::refimpl::req;

// ---------------------------------------------------------------- logger + panic capture

pub struct LogRec {
    pub level: log::Level,
    pub thread: String,
    pub msg: String,
}

pub struct CapLogger {
    pub recs: Mutex<Vec<LogRec>>,
    pub count: [std::sync::atomic::AtomicU64; 6],
    pub keep: std::sync::atomic::AtomicBool,
}

pub static LOGGER: CapLogger = CapLogger {
    recs: Mutex::new(Vec::new()),
    count: [
        std::sync::atomic::AtomicU64::new(0),
        std::sync::atomic::AtomicU64::new(0),
        std::sync::atomic::AtomicU64::new(0),
        std::sync::atomic::AtomicU64::new(0),
        std::sync::atomic::AtomicU64::new(0),
        std::sync::atomic::AtomicU64::new(0),
    ],
    keep: std::sync::atomic::AtomicBool::new(false),
};

impl log::Log for CapLogger {
    fn enabled(&self, _: &log::Metadata) -> bool {
        true
    }
    fn log(&self, r: &log::Record) {
        // always format, as any real logger would
        let msg = format!("{}", r.args());
        self.count[r.level() as usize].fetch_add(1, std::sync::atomic::Ordering::Relaxed);
        if self.keep.load(std::sync::atomic::Ordering::Relaxed) {
            let thread = std::thread::current().name().unwrap_or("?").to_string();
            self.recs.lock().unwrap().push(LogRec { level: r.level(), thread, msg });
        }
    }
    fn flush(&self) {}
}

pub fn install_logger(level: log::LevelFilter, keep: bool) {
    let _ = log::set_logger(&LOGGER);
    log::set_max_level(level);
    LOGGER.keep.store(keep, std::sync::atomic::Ordering::Relaxed);
}

/// Log level by shard for the monitors whose verdict does not depend on it: most shards at
/// Warn (cheap), one in four at Trace and one at Debug, so that log arguments (which the `log`
/// macros evaluate only when the level admits the record) are evaluated somewhere
pub fn install_shard_logger(shard: u64, out: &mut crate::out::Out) {
    let (lvl, name) = match shard % 4 {
        1 => (log::LevelFilter::Trace, "Trace"),
        2 => (log::LevelFilter::Debug, "Debug"),
        _ => (log::LevelFilter::Warn, "Warn"),
    };
    install_logger(lvl, false);
    out.obs(&format!("shards_at_log_level_{}", name), 1);
}

pub fn take_logs() -> Vec<LogRec> {
    std::mem::take(&mut *LOGGER.recs.lock().unwrap())
}

pub fn log_counts() -> [u64; 6] {
    let mut c = [0u64; 6];
    for i in 0..6 {
        c[i] = LOGGER.count[i].load(std::sync::atomic::Ordering::Relaxed);
    }
    c
}

pub static PANICS: Mutex<Vec<String>> = Mutex::new(Vec::new());

/// Replace the default hook: record "message @ file:line" and stay quiet.
pub fn install_panic_capture() {
    std::panic::set_hook(Box::new(|info| {
        let loc = info.location().map(|l| format!("{}:{}", l.file(), l.line())).unwrap_or_default();
        let msg = if let Some(s) = info.payload().downcast_ref::<&str>() {
            s.to_string()
        } else if let Some(s) = info.payload().downcast_ref::<String>() {
            s.clone()
        } else {
            "<non-string panic>".to_string()
        };
        let t = std::thread::current().name().unwrap_or("?").to_string();
        PANICS.lock().unwrap().push(format!("{} @ {} [thread {}]", msg, loc, t));
    }));
}

pub fn take_panics() -> Vec<String> {
    std::mem::take(&mut *PANICS.lock().unwrap())
}

// ---------------------------------------------------------------- configuration

#[derive(Clone, Debug)]
pub struct HConfig {
    pub seed: Vec<u8>,
    pub batch_size: u8,
    pub fault_percentage: u8,
    pub client_stats: bool,
    pub health_check_port: Option<u16>,
    pub persist: Option<PathBuf>,
    pub status_interval: Duration,
    /// capacity of the StatsQueue handed to the server (the real binary uses 2 x num_workers)
    pub queue_cap: usize,
    kms: KmsProtection,
}

impl HConfig {
    pub fn new(seed: &[u8]) -> HConfig {
        HConfig {
            seed: seed.to_vec(),
            batch_size: 64,
            fault_percentage: 0,
            client_stats: false,
            health_check_port: None,
            persist: None,
            // the stats timer fires at status_interval/10 and clears the recorder; keep it far away
            status_interval: Duration::from_secs(60_000),
            queue_cap: 4096,
            kms: KmsProtection::Plaintext,
        }
    }
}

impl ServerConfig for HConfig {
    fn interface(&self) -> &str {
        "127.0.0.1"
    }
    fn port(&self) -> u16 {
        1
    }
    fn seed(&self) -> Vec<u8> {
        self.seed.clone()
    }
    fn batch_size(&self) -> u8 {
        self.batch_size
    }
    fn status_interval(&self) -> Duration {
        self.status_interval
    }
    fn kms_protection(&self) -> &KmsProtection {
        &self.kms
    }
    fn health_check_port(&self) -> Option<u16> {
        self.health_check_port
    }
    fn client_stats_enabled(&self) -> bool {
        self.client_stats
    }
    fn persistence_directory(&self) -> Option<PathBuf> {
        self.persist.clone()
    }
    fn fault_percentage(&self) -> u8 {
        self.fault_percentage
    }
    fn num_workers(&self) -> usize {
        1
    }
}

// ---------------------------------------------------------------- sockets

pub fn set_rcvbuf(fd: i32, bytes: i32) {
    unsafe {
        libc::setsockopt(
            fd,
            libc::SOL_SOCKET,
            libc::SO_RCVBUF,
            &bytes as *const i32 as *const libc::c_void,
            std::mem::size_of::<i32>() as u32,
        );
    }
}

/// A client socket on an ephemeral source port -- except that one in eight (when the harness may
/// bind them: root) sits on a well-known port below 1024 or at the very top of the range: where a
/// request comes from must make no difference to how it, or its neighbours in the batch, are
/// answered.
pub fn client_socket() -> UdpSocket {
    static N: std::sync::atomic::AtomicU64 = std::sync::atomic::AtomicU64::new(0);
    let n = N.fetch_add(1, std::sync::atomic::Ordering::Relaxed);
    let mut s = None;
    if n % 8 == 3 {
        let shard = crate::procs::PORT_SHARD.load(std::sync::atomic::Ordering::Relaxed) as u64 % 20;
        let cands = [600 + shard * 20 + (n / 8) % 20, 123, 53, 1023 - shard, 65535 - shard];
        for c in cands {
            if let Ok(x) = UdpSocket::bind(("127.0.0.1", c as u16)) {
                LOW_PORT_SOCKETS.fetch_add((c < 1024) as u64, std::sync::atomic::Ordering::Relaxed);
                s = Some(x);
                break;
            }
        }
    }
    let s = s.unwrap_or_else(|| UdpSocket::bind("127.0.0.1:0").expect("bind client socket"));
    set_rcvbuf(s.as_raw_fd(), 2 << 20);
    s.set_nonblocking(true).unwrap();
    s
}

/// a socket on a well-known source port (None when none can be bound)
pub fn client_socket_low_port() -> Option<UdpSocket> {
    let shard = crate::procs::PORT_SHARD.load(std::sync::atomic::Ordering::Relaxed) as u16 % 20;
    for c in [1023 - shard, 980 - shard, 123, 53, 940 - shard] {
        if let Ok(x) = UdpSocket::bind(("127.0.0.1", c)) {
            LOW_PORT_SOCKETS.fetch_add(1, std::sync::atomic::Ordering::Relaxed);
            return Some(x);
        }
    }
    None
}

/// how many client sockets of this process were bound to a port below 1024
pub static LOW_PORT_SOCKETS: std::sync::atomic::AtomicU64 = std::sync::atomic::AtomicU64::new(0);

/// kernel drop counter of the UDP socket bound to `port` (column `drops` of /proc/net/udp)
pub fn udp_drops(port: u16) -> Option<u64> {
    let txt = std::fs::read_to_string("/proc/net/udp").ok()?;
    let want = format!(":{:04X}", port);
    let mut total = None;
    for line in txt.lines().skip(1) {
        let cols: Vec<&str> = line.split_whitespace().collect();
        if cols.len() >= 13 && cols[1].ends_with(&want) {
            let d: u64 = cols[cols.len() - 1].parse().ok()?;
            total = Some(total.unwrap_or(0) + d);
        }
    }
    total
}

pub fn drain(s: &UdpSocket) -> Vec<Vec<u8>> {
    let mut out = Vec::new();
    let mut buf = vec![0u8; 65536];
    loop {
        match s.recv_from(&mut buf) {
            Ok((n, _)) => out.push(buf[..n].to_vec()),
            Err(_) => break,
        }
    }
    out
}

// ---------------------------------------------------------------- the stepped server

#[derive(Debug, Clone, Default)]
pub struct StatsSnap {
    pub valid: u64,
    pub rfc_req: u64,
    pub classic_req: u64,
    pub invalid: u64,
    pub health: u64,
    pub responses: u64,
    pub rfc_resp: u64,
    pub classic_resp: u64,
    pub bytes: u64,
    pub failed_send: u64,
    pub unique: u64,
}

enum Cmd {
    Step(usize),
    Stats,
    Stop,
}

enum Ack {
    Stepped(Option<String>),
    Stats(Option<StatsSnap>),
}

pub struct Inproc {
    pub addr: SocketAddr,
    pub pubkey_hex: String,
    cmd: Sender<Cmd>,
    ack: Receiver<Ack>,
    handle: Option<JoinHandle<()>>,
    pub dead: bool,
    sentinel: UdpSocket,
    sent_ctr: u64,
    pub drops_at_start: Option<u64>,
    /// the StatsQueue the server publishes its per-client snapshots to (the harness is the reporter)
    pub queue: Arc<StatsQueue>,
}

static SERVER_CTR: std::sync::atomic::AtomicU64 = std::sync::atomic::AtomicU64::new(0);

impl Inproc {
    pub fn start(cfg: HConfig) -> Result<Inproc, String> {
        Self::start_named(cfg, None)
    }

    pub fn start_named(cfg: HConfig, name: Option<String>) -> Result<Inproc, String> {
        let std_sock = UdpSocket::bind("127.0.0.1:0").map_err(|e| format!("bind: {}", e))?;
        set_rcvbuf(std_sock.as_raw_fd(), 4 << 20);
        std_sock.set_nonblocking(true).unwrap();
        let addr = std_sock.local_addr().unwrap();
        let (ctx, crx) = channel::<Cmd>();
        let (atx, arx) = channel::<Ack>();
        let (ptx, prx) = channel::<Result<String, String>>();
        let n = SERVER_CTR.fetch_add(1, std::sync::atomic::Ordering::Relaxed);
        let tname = name.unwrap_or_else(|| format!("worker-h{}", n));
        let queue = Arc::new(StatsQueue::new(cfg.queue_cap.max(1)));
        let q_for_server = queue.clone();
        let handle = std::thread::Builder::new()
            .name(tname)
            .stack_size(8 << 20)
            .spawn(move || {
                let built = catch_unwind(AssertUnwindSafe(|| {
                    let sock = mio::net::UdpSocket::from_socket(std_sock).expect("mio from_socket");
                    Server::new(&cfg, sock, q_for_server)
                }));
                let mut server = match built {
                    Ok(s) => {
                        let _ = ptx.send(Ok(s.get_public_key().to_string()));
                        s
                    }
                    Err(_) => {
                        let _ = ptx.send(Err("Server::new panicked".into()));
                        return;
                    }
                };
                let mut events = mio::Events::with_capacity(1024);
                loop {
                    match crx.recv() {
                        Ok(Cmd::Step(k)) => {
                            let mut p = None;
                            for _ in 0..k {
                                let r = catch_unwind(AssertUnwindSafe(|| server.process_events(&mut events)));
                                if r.is_err() {
                                    p = Some(take_panics().join(" | "));
                                    break;
                                }
                            }
                            let _ = atx.send(Ack::Stepped(p));
                        }
                        Ok(Cmd::Stats) => {
                            let _ = atx.send(Ack::Stats(stats_of(&server)));
                        }
                        Ok(Cmd::Stop) | Err(_) => break,
                    }
                }
            })
            .map_err(|e| e.to_string())?;
        let pk = prx
            .recv_timeout(Duration::from_secs(30))
            .map_err(|_| "server thread did not report".to_string())??;
        let drops_at_start = udp_drops(addr.port());
        Ok(Inproc {
            addr,
            pubkey_hex: pk,
            cmd: ctx,
            ack: arx,
            handle: Some(handle),
            dead: false,
            sentinel: client_socket(),
            sent_ctr: 0,
            drops_at_start,
            queue,
        })
    }

    /// run `process_events` k times; Err(panic text) if it unwound
    pub fn step(&mut self, k: usize) -> Result<(), String> {
        if self.dead {
            return Err("server already dead".into());
        }
        self.cmd.send(Cmd::Step(k)).map_err(|_| "server thread gone".to_string())?;
        match self.ack.recv_timeout(Duration::from_secs(60)) {
            Ok(Ack::Stepped(None)) => Ok(()),
            Ok(Ack::Stepped(Some(p))) => {
                self.dead = true;
                Err(p)
            }
            _ => {
                self.dead = true;
                Err("WEDGED: process_events did not return within 60 s".into())
            }
        }
    }

    pub fn stats(&mut self) -> Option<StatsSnap> {
        self.cmd.send(Cmd::Stats).ok()?;
        match self.ack.recv_timeout(Duration::from_secs(10)) {
            Ok(Ack::Stats(s)) => s,
            _ => None,
        }
    }

    pub fn send(&self, from: &UdpSocket, data: &[u8]) -> bool {
        from.send_to(data, self.addr).is_ok()
    }

    /// Sentinel: a fresh valid classic request from the server's private sentinel socket,
    /// stepped until its reply arrives. Because the server socket is a FIFO and replies are
    /// sent inside process_events, its arrival proves every earlier datagram was handled.
    /// Returns (request, reply datagrams) — at most `tries` steps.
    pub fn sentinel(&mut self, tries: usize) -> Result<(Vec<u8>, Vec<u8>, Vec<Vec<u8>>), String> {
        self.sent_ctr += 1;
        let mut nonce = vec![0u8; 64];
        nonce[..8].copy_from_slice(&self.sent_ctr.to_le_bytes());
        nonce[8..16].copy_from_slice(b"SENTINEL");
        let t = Instant::now().elapsed().as_nanos() as u64 ^ (self.addr.port() as u64) << 40;
        nonce[16..24].copy_from_slice(&t.to_le_bytes());
        let reqb = req::classic_request(&nonce, 1024);
        let _ = drain(&self.sentinel);
        self.sentinel.send_to(&reqb, self.addr).map_err(|e| e.to_string())?;
        for _ in 0..tries {
            self.step(1)?;
            let got = drain(&self.sentinel);
            if !got.is_empty() {
                return Ok((reqb, nonce, got));
            }
        }
        Ok((reqb, nonce, vec![]))
    }

    pub fn drops_moved(&self) -> bool {
        match (self.drops_at_start, udp_drops(self.addr.port())) {
            (Some(a), Some(b)) => b != a,
            _ => false,
        }
    }

    pub fn stop(&mut self) {
        let _ = self.cmd.send(Cmd::Stop);
        if let Some(h) = self.handle.take() {
            let _ = h.join();
        }
    }
}

impl Drop for Inproc {
    fn drop(&mut self) {
        self.stop();
    }
}

#[cfg(roughenough_verif)]
fn stats_of(server: &Server) -> Option<StatsSnap> {
    let s = server.verif_stats();
    Some(StatsSnap {
        valid: s.total_valid_requests(),
        rfc_req: s.num_rfc_requests(),
        classic_req: s.num_classic_requests(),
        invalid: s.total_invalid_requests(),
        health: s.total_health_checks(),
        responses: s.total_responses_sent(),
        rfc_resp: s.num_rfc_responses_sent(),
        classic_resp: s.num_classic_responses_sent(),
        bytes: s.total_bytes_sent() as u64,
        failed_send: s.total_failed_send_attempts(),
        unique: s.total_unique_clients(),
    })
}

#[cfg(not(roughenough_verif))]
fn stats_of(_server: &Server) -> Option<StatsSnap> {
    None
}

/// classify a datagram the server sent us: which protocol's framing it has
pub fn reply_proto(d: &[u8]) -> Proto {
    if d.len() >= 8 && &d[..8] == b"ROUGHTIM" {
        Proto::Ietf
    } else {
        Proto::Classic
    }
}


/// Raw UDP sender (needs CAP_NET_RAW): lets the harness send a datagram whose UDP *source port is 0*.
/// Linux delivers it, but the server's reply to port 0 fails (EINVAL) -- the only way to make a
/// send fail on loopback, i.e. an injected send fault that an attacker can also cause.
pub struct RawUdp {
    fd: i32,
}

impl RawUdp {
    pub fn new() -> Option<RawUdp> {
        let fd = unsafe { libc::socket(libc::AF_INET, libc::SOCK_RAW, libc::IPPROTO_UDP) };
        if fd < 0 {
            None
        } else {
            Some(RawUdp { fd })
        }
    }

    pub fn send_from_port(&self, src_port: u16, dst: SocketAddr, payload: &[u8]) -> bool {
        let SocketAddr::V4(d) = dst else { return false };
        let len = 8 + payload.len();
        if len > 65535 {
            return false;
        }
        let mut pkt = Vec::with_capacity(len);
        pkt.extend_from_slice(&src_port.to_be_bytes());
        pkt.extend_from_slice(&d.port().to_be_bytes());
        pkt.extend_from_slice(&(len as u16).to_be_bytes());
        pkt.extend_from_slice(&[0, 0]); // checksum 0 = not computed (legal for UDP over IPv4)
        pkt.extend_from_slice(payload);
        let sa = libc::sockaddr_in {
            sin_family: libc::AF_INET as u16,
            sin_port: 0,
            sin_addr: libc::in_addr { s_addr: u32::from_ne_bytes(d.ip().octets()) },
            sin_zero: [0; 8],
        };
        let r = unsafe { libc::sendto(self.fd, pkt.as_ptr() as *const libc::c_void, pkt.len(), 0, &sa as *const libc::sockaddr_in as *const libc::sockaddr, std::mem::size_of::<libc::sockaddr_in>() as u32) };
        r == pkt.len() as isize
    }
}

impl Drop for RawUdp {
    fn drop(&mut self) {
        unsafe {
            libc::close(self.fd);
        }
    }
}
