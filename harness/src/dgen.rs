//! Datagram generators: valid requests of both protocols and ~30 classes of hostile
//! datagrams around the server's acceptance rules. Pure (no sockets), so they also run
//! under Miri.

use crate::prng::Rng;
use crate::refimpl::crypto::DRAFT13;
use crate::refimpl::req;

// ------------------------------------------------------------------ datagram generators

#[derive(Clone, Debug)]
pub struct Dgram {
    pub data: Vec<u8>,
    pub class: &'static str,
}

pub fn aligned_size(rng: &mut Rng) -> usize {
    match rng.below(6) {
        0 => 1024,
        1 => 1500,
        2 => 1028,
        3 => 1496,
        _ => (rng.range(256, 375) * 4) as usize,
    }
}

pub fn valid_classic(rng: &mut Rng) -> Dgram {
    let n = rng.bytes(64);
    Dgram { data: req::classic_request(&n, aligned_size(rng)), class: "valid-classic" }
}

pub fn valid_ietf(rng: &mut Rng, srv: Option<&[u8]>) -> Dgram {
    let n = rng.bytes(32);
    let vers: Vec<u32> = match rng.below(5) {
        0 => vec![0, DRAFT13],
        1 => vec![DRAFT13, 0x8000000d],
        2 => vec![1, 2, 3, DRAFT13],
        _ => vec![DRAFT13],
    };
    let with_srv = srv.is_some() && rng.chance(1, 2);
    Dgram { data: req::ietf_request(&vers, if with_srv { srv } else { None }, &n, aligned_size(rng)), class: "valid-ietf" }
}

/// A hostile datagram: one of many classes around the server's acceptance rules.
pub fn hostile(rng: &mut Rng, srv: &[u8]) -> Dgram {
    let k = rng.below(44);
    match k {
        34 | 35 | 40 | 41 | 42 | 43 => {
            // a request carrying a random subset of the other known tags next to NONC, in
            // ascending wire order (well-formed) or with one adjacent pair of tags swapped (not)
            use crate::refimpl::codec::*;
            let ietf = rng.chance(1, 2);
            let mut m = RefMsg::new();
            m.set(NONC, &rng.bytes(if ietf { 32 } else { 64 }));
            // a third of the framed ones name no version at all in VER (a response-only VERS
            // naming draft-13 does not make up for it)
            let no_ver = ietf && rng.chance(1, 3);
            if ietf && !no_ver {
                m.set(VER, &DRAFT13.to_le_bytes());
            }
            for t in [SIG, SRV, DELE, PATH, RADI, PUBK, MIDP, SREP, VERS, MINT, ROOT, CERT, MAXT, INDX, ZZZZ, PAD] {
                if no_ver && t == VERS && rng.chance(3, 4) {
                    m.set(VERS, &DRAFT13.to_le_bytes());
                    continue;
                }
                if ietf && t == SRV {
                    // this server's own commitment value now and then (any tag order games must
                    // not get such a request answered either)
                    if rng.chance(1, 3) {
                        m.set(SRV, srv);
                    }
                    continue;
                }
                if rng.chance(1, 4) {
                    let l = 4 * rng.below(3) as usize;
                    m.set(t, &rng.bytes(l));
                }
            }
            // pad with whichever padding tag sorts last among those present
            let padtag = if m.has(PAD) || !ietf { PAD } else { ZZZZ };
            m.set(padtag, &[]);
            let base = m.encode().len() + if ietf { 12 } else { 0 };
            m.set(padtag, &vec![0u8; 1024usize.saturating_sub(base)]);
            let swapped = k == 35 && m.fields.len() >= 2;
            if swapped {
                // swap the tag words only (values stay): not ascending any more
                let i = match rng.below(3) {
                    0 => m.fields.len() - 2,
                    1 => rng.usize_below(2.min(m.fields.len() - 1)),
                    _ => rng.usize_below(m.fields.len() - 1),
                };
                if rng.chance(1, 2) {
                    // whole fields change places (each tag keeps its value)
                    m.fields.swap(i, i + 1);
                } else {
                    let (a, b) = (m.fields[i].0, m.fields[i + 1].0);
                    m.fields[i].0 = b;
                    m.fields[i + 1].0 = a;
                }
            }
            // 40..43: the tags stay ascending, one or two words of the offset table are replaced
            // (decreasing, repeated, past the end), lengths of the values around them change with it
            let mut offsets_edited = false;
            let mut d = m.encode();
            if k >= 40 && m.fields.len() >= 3 {
                let nf = m.fields.len();
                let payload = d.len() - 8 * nf;
                for _ in 0..rng.range(1, 2) {
                    let i = rng.usize_below(nf - 1);
                    let v = match rng.below(4) {
                        0 => 0u32,
                        1 => (4 * rng.below(payload as u64 / 4 + 1)) as u32,
                        2 => {
                            // the previous offset minus a few words (decreasing)
                            let prev = if i == 0 { 0 } else { u32::from_le_bytes([d[4 * i], d[4 * i + 1], d[4 * i + 2], d[4 * i + 3]]) };
                            prev.saturating_sub(4 * rng.range(1, 12) as u32)
                        }
                        _ => payload as u32 + 4 * rng.below(3) as u32,
                    };
                    d[4 + 4 * i..8 + 4 * i].copy_from_slice(&v.to_le_bytes());
                }
                offsets_edited = true;
            }
            let d = if ietf { crate::refimpl::codec::frame(&d) } else { d };
            Dgram { data: d, class: if offsets_edited { "tag-subset-offset-table-edited" } else if no_ver { "ietf-without-ver-other-tags" } else if swapped { "tag-subset-one-pair-swapped" } else { "tag-subset-ascending" } }
        }
        36 | 37 => {
            // VER value whose BYTES contain the draft-13 word at an unaligned offset, while none of
            // its 4-byte entries is draft-13
            let shift = rng.range(1, 3) as usize;
            let mut v = rng.bytes(shift);
            v.extend_from_slice(&DRAFT13.to_le_bytes());
            while v.len() % 4 != 0 {
                v.push(rng.below(256) as u8);
            }
            if rng.chance(1, 2) {
                let mut pre = rng.bytes(4);
                pre[0] = 1; // not draft-13
                pre.extend_from_slice(&v);
                v = pre;
            }
            let has13 = v.chunks(4).any(|c| c == DRAFT13.to_le_bytes());
            Dgram { data: req::ietf_request_raw(Some(&v), None, Some(&rng.bytes(32)), 1024), class: if has13 { "ietf-ver-unaligned-also-aligned" } else { "ietf-ver-draft13-bytes-unaligned" } }
        }
        0 => Dgram { data: vec![], class: "empty" },
        1 => Dgram { data: rng.rbytes(1, 1023), class: "random-short" },
        2 => Dgram { data: rng.bytes(1023), class: "random-1023" },
        3 => Dgram { data: rng.bytes(1024), class: "random-1024" },
        4 => Dgram { data: rng.rbytes(1025, 1499), class: "random-mid" },
        5 => Dgram { data: rng.bytes(1500), class: "random-1500" },
        6 => Dgram { data: rng.bytes(1501), class: "random-1501" },
        7 => Dgram { data: rng.rbytes(1501, 65507), class: "random-large" },
        8 => Dgram { data: rng.bytes(65507), class: "random-65507" },
        9 => {
            // well-formed but just outside the window (aligned sizes)
            let sz = *rng.pick(&[1000usize, 1012, 1016, 1020, 1504, 1508, 1512, 2048]);
            let d = if rng.chance(1, 2) { req::classic_request(&rng.bytes(64), sz) } else { req::ietf_request(&[DRAFT13], None, &rng.bytes(32), sz) };
            Dgram { data: d, class: "wellformed-outside-window" }
        }
        10 => {
            // truncated valid request
            let mut d = if rng.chance(1, 2) { valid_classic(rng).data } else { valid_ietf(rng, Some(srv)).data };
            let l = rng.usize_below(d.len());
            d.truncate(l);
            Dgram { data: d, class: "truncated" }
        }
        11 => {
            let mut d = if rng.chance(1, 2) { valid_classic(rng).data } else { valid_ietf(rng, Some(srv)).data };
            let e = rng.rbytes(1, 600);
            d.extend_from_slice(&e);
            Dgram { data: d, class: "extended" }
        }
        12 => {
            // frame length field off
            let mut d = valid_ietf(rng, Some(srv)).data;
            let real = (d.len() - 12) as u32;
            let v = *rng.pick(&[real + 4, real - 4, real + 1, 0, 0xffff_ffff, real ^ 0x100, 1012, 1488]);
            d[8..12].copy_from_slice(&v.to_le_bytes());
            Dgram { data: d, class: "frame-length-wrong" }
        }
        13 => {
            // frame magic damaged
            let mut d = valid_ietf(rng, Some(srv)).data;
            let i = rng.usize_below(8);
            d[i] ^= 1 << rng.below(8);
            Dgram { data: d, class: "frame-magic-damaged" }
        }
        14 => {
            // nonce of another aligned length
            let nl = (rng.below(371) * 4) as usize;
            let n = rng.bytes(nl);
            let sz = std::cmp::max(1024, ((nl + 64) / 4 * 4).min(1500));
            let d = if rng.chance(1, 2) { req::classic_request(&n, sz) } else { req::ietf_request(&[DRAFT13], None, &n, sz) };
            Dgram { data: d, class: "nonce-odd-length" }
        }
        15 => {
            let d = if rng.chance(1, 2) { req::classic_request(&[], 1024) } else { req::ietf_request(&[DRAFT13], None, &[], 1024) };
            Dgram { data: d, class: "nonce-empty" }
        }
        16 => {
            // no nonce at all
            let d = if rng.chance(1, 2) {
                let mut m = crate::refimpl::codec::RefMsg::new();
                m.set(crate::refimpl::codec::PAD, &vec![0u8; 1016]);
                m.encode()
            } else {
                req::ietf_request_raw(Some(&DRAFT13.to_le_bytes()), None, None, 1024)
            };
            Dgram { data: d, class: "nonce-missing" }
        }
        17 => {
            let vers: Vec<u32> = match rng.below(4) {
                0 => vec![],
                1 => vec![0],
                2 => vec![0x8000000b, 0x8000000d],
                _ => vec![1, 2, 3, 4, 5],
            };
            Dgram { data: req::ietf_request(&vers, None, &rng.bytes(32), 1024), class: "ietf-no-supported-version" }
        }
        18 => Dgram { data: req::ietf_request_raw(None, None, Some(&rng.bytes(32)), 1024), class: "ietf-ver-missing" },
        19 => {
            let mut s = srv.to_vec();
            if rng.chance(1, 2) {
                let i = rng.usize_below(32);
                s[i] ^= 1 << rng.below(8);
            } else {
                s = rng.rbytes(0, 16);
                s.truncate(s.len() / 4 * 4);
            }
            Dgram { data: req::ietf_request(&[DRAFT13], Some(&s), &rng.bytes(32), 1024), class: "ietf-srv-wrong" }
        }
        20 | 21 => {
            // structured codec mutation of a valid request payload
            let ietf = rng.chance(1, 2);
            let base = if ietf { valid_ietf(rng, Some(srv)).data } else { valid_classic(rng).data };
            let (hdr, payload) = if ietf { (base[..12].to_vec(), base[12..].to_vec()) } else { (vec![], base.clone()) };
            let nf = u32::from_le_bytes([payload[0], payload[1], payload[2], payload[3]]) as usize;
            let m = crate::codecgen::mutate(rng, &payload, nf);
            let mut d = hdr;
            d.extend_from_slice(&m.bytes);
            if ietf && rng.chance(2, 3) && d.len() >= 12 {
                let l = (d.len() - 12) as u32;
                d[8..12].copy_from_slice(&l.to_le_bytes());
            }
            Dgram { data: d, class: "codec-mutant" }
        }
        22 => {
            // random single bit flip anywhere in a valid request
            let mut d = if rng.chance(1, 2) { valid_classic(rng).data } else { valid_ietf(rng, Some(srv)).data };
            let i = rng.usize_below(std::cmp::min(d.len(), 120));
            d[i] ^= 1 << rng.below(8);
            Dgram { data: d, class: "bit-flip-header" }
        }
        23 => {
            // a *response*-shaped message sent as a request
            let mut m = crate::refimpl::codec::RefMsg::new();
            m.set(crate::refimpl::codec::SIG, &rng.bytes(64));
            m.set(crate::refimpl::codec::NONC, &rng.bytes(64));
            m.set(crate::refimpl::codec::CERT, &rng.bytes(152));
            m.set(crate::refimpl::codec::PAD, &vec![0u8; 740]);
            Dgram { data: m.encode(), class: "response-shaped" }
        }
        24 => {
            // only the magic, or magic + garbage
            let mut d = b"ROUGHTIM".to_vec();
            let e = rng.rbytes(0, 1492);
            d.extend_from_slice(&e);
            Dgram { data: d, class: "magic-then-garbage" }
        }
        25 => {
            // zero-tag message of request size
            Dgram { data: vec![0u8; aligned_size(rng)], class: "zero-tags" }
        }
        26 => {
            // IETF request with tiny nonce (4 bytes) / classic with 4 bytes
            let n = rng.bytes(4);
            let d = if rng.chance(1, 2) { req::classic_request(&n, 1024) } else { req::ietf_request(&[DRAFT13], None, &n, 1024) };
            Dgram { data: d, class: "nonce-4-bytes" }
        }
        27 => {
            // huge nonce filling the packet
            let d = if rng.chance(1, 2) { req::classic_request(&rng.bytes(1000), 1024) } else { req::ietf_request(&[DRAFT13], None, &rng.bytes(960), 1024) };
            Dgram { data: d, class: "nonce-huge" }
        }
        28 => {
            // VER list long / unaligned length
            let mut v = Vec::new();
            for _ in 0..rng.range(5, 40) {
                v.extend_from_slice(&rng.next_u32().to_le_bytes());
            }
            if rng.chance(1, 2) {
                v.extend_from_slice(&DRAFT13.to_le_bytes());
            }
            Dgram { data: req::ietf_request_raw(Some(&v), None, Some(&rng.bytes(32)), 1024), class: "ietf-long-ver-list" }
        }
        29 => {
            // classic request with extra known tags
            let mut m = crate::refimpl::codec::RefMsg::new();
            m.set(crate::refimpl::codec::NONC, &rng.bytes(64));
            m.set(crate::refimpl::codec::SIG, &rng.bytes(64));
            m.set(crate::refimpl::codec::INDX, &rng.bytes(4));
            let l = m.encode().len() + 8;
            m.set(crate::refimpl::codec::PAD, &vec![0u8; 1024 - l]);
            Dgram { data: m.encode(), class: "classic-extra-tags" }
        }
        _ => {
            if rng.chance(1, 2) {
                valid_classic(rng)
            } else {
                valid_ietf(rng, Some(srv))
            }
        }
    }
}


/// "Stale receive buffer" probe: a valid 1500-byte request whose padding consists of useful
/// words (draft-13 version numbers), followed by short framed messages that name NO version in
/// their own bytes and whose value offsets point past their own end -- into where the previous,
/// longer datagram's bytes would still lie in a reused receive buffer. None of the short ones is
/// a well-formed request; none may be answered.
pub fn stale_buffer_probe(rng: &mut Rng) -> (Vec<u8>, Vec<Vec<u8>>) {
    use crate::refimpl::codec::*;
    // A: framed {VER, NONC, ZZZZ=pattern} of 1500 bytes
    let mut a = RefMsg::new();
    a.set(VER, &DRAFT13.to_le_bytes());
    a.set(NONC, &rng.bytes(32));
    a.set(ZZZZ, &[]);
    let base = 12 + a.encode().len();
    let mut pad = Vec::new();
    while pad.len() < 1500 - base {
        pad.extend_from_slice(&DRAFT13.to_le_bytes());
    }
    pad.truncate(1500 - base);
    a.set(ZZZZ, &pad);
    let first = a.encode_framed();
    // B variants: 1024 bytes, tags SIG, VER, NONC, ZZZZ, offsets beyond the 976-byte value area
    let mut seconds = Vec::new();
    for o1 in [980u32, 984, 1000, 1040, 1200, 1400] {
        let mut b = Vec::new();
        b.extend_from_slice(&4u32.to_le_bytes());
        for o in [o1, o1 + 4, o1 + 36] {
            b.extend_from_slice(&o.to_le_bytes());
        }
        for t in [SIG, VER, NONC, ZZZZ] {
            b.extend_from_slice(&t.to_le_bytes());
        }
        b.resize(1024 - 12, 0x11);
        seconds.push(frame(&b));
        // classic flavour: SIG, NONC, PAD with NONC past the end
        let mut c = Vec::new();
        c.extend_from_slice(&3u32.to_le_bytes());
        for o in [o1, o1 + 64] {
            c.extend_from_slice(&o.to_le_bytes());
        }
        for t in [SIG, NONC, PAD] {
            c.extend_from_slice(&t.to_le_bytes());
        }
        c.resize(1024, 0x22);
        seconds.push(c);
    }
    (first, seconds)
}
