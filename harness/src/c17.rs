//! C17 — request statistics conserve events, stay bounded, match the traffic served.
//! (1) model monitor over op sequences (bounded-exhaustive + random), (2) worker split ->
//! StatsQueue -> Reporter merge, (3) a stepped in-process server whose recorder is read
//! at quiescent points (in c09.rs, mode "stats").

use std::collections::HashMap;
use std::net::{IpAddr, Ipv4Addr, Ipv6Addr};
use std::panic::{catch_unwind, AssertUnwindSafe};
use std::sync::Arc;
use std::time::Duration;

use roughenough::stats::{AggregatedStats, ClientStats, PerClientStats, Reporter, ServerStats, StatsQueue};
use roughenough::Error;
use serde_json::json;

use crate::inproc::take_panics;
use crate::out::{Ctx, Out};
use crate::prng::{fnv64, Rng};

pub const NOPS: usize = 8;
const OP_NAMES: [&str; NOPS] = ["ietf_req", "classic_req", "invalid_req", "failed_send", "retried_send", "health", "rfc_resp", "classic_resp"];
// model counters: rfc_req, classic_req, invalid, health, rfc_resp, classic_resp, bytes, failed, retried
type Ctrs = [u64; 9];

fn apply_real(s: &mut dyn ServerStats, op: usize, a: &IpAddr, bytes: usize) {
    match op {
        0 => s.add_ietf_request(a),
        1 => s.add_classic_request(a),
        2 => s.add_invalid_request(a, &Error::RequestTooShort),
        3 => s.add_failed_send_attempt(a),
        4 => s.add_retried_send_attempt(a),
        5 => s.add_health_check(a),
        6 => s.add_rfc_response(a, bytes),
        _ => s.add_classic_response(a, bytes),
    }
}

fn apply_model(c: &mut Ctrs, op: usize, bytes: usize) {
    match op {
        0 => c[0] += 1,
        1 => c[1] += 1,
        2 => c[2] += 1,
        3 => c[7] += 1,
        4 => c[8] += 1,
        5 => c[3] += 1,
        6 => {
            c[4] += 1;
            c[6] += bytes as u64
        }
        _ => {
            c[5] += 1;
            c[6] += bytes as u64
        }
    }
}

fn ctrs_of(s: &ClientStats) -> Ctrs {
    [
        s.rfc_requests as u64,
        s.classic_requests as u64,
        s.invalid_requests as u64,
        s.health_checks as u64,
        s.rfc_responses_sent as u64,
        s.classic_responses_sent as u64,
        s.bytes_sent as u64,
        s.failed_send_attempts as u64,
        s.retried_send_attempts as u64,
    ]
}

fn totals_of(s: &dyn ServerStats) -> [u64; 11] {
    [
        s.total_valid_requests(),
        s.num_rfc_requests(),
        s.num_classic_requests(),
        s.total_invalid_requests(),
        s.total_health_checks(),
        s.total_failed_send_attempts(),
        s.total_retried_send_attempts(),
        s.total_responses_sent(),
        s.num_rfc_responses_sent(),
        s.num_classic_responses_sent(),
        s.total_bytes_sent() as u64,
    ]
}

fn model_totals(m: &HashMap<IpAddr, Ctrs>) -> [u64; 11] {
    let mut t = [0u64; 9];
    for c in m.values() {
        for i in 0..9 {
            t[i] += c[i];
        }
    }
    [t[0] + t[1], t[0], t[1], t[2], t[3], t[7], t[8], t[4] + t[5], t[4], t[5], t[6]]
}

pub fn addr_pool(n: usize) -> Vec<IpAddr> {
    (0..n)
        .map(|i| {
            if i % 5 == 4 {
                IpAddr::V6(Ipv6Addr::new(0x2001, 0xdb8, 0, 0, 0, 0, (i >> 16) as u16, i as u16))
            } else if i % 5 == 2 {
                // an IPv4-mapped IPv6 address (what a dual-stack socket reports for an IPv4 peer):
                // a different key than the plain IPv4 address, and one like any other
                IpAddr::V6(Ipv4Addr::new(10, (i >> 16) as u8, (i >> 8) as u8, i as u8).to_ipv6_mapped())
            } else if i % 5 == 3 && i >= 5 {
                // the plain IPv4 form of the mapped address two places back
                let j = i - 1;
                IpAddr::V4(Ipv4Addr::new(10, (j >> 16) as u8, (j >> 8) as u8, j as u8))
            } else {
                IpAddr::V4(Ipv4Addr::new(10, (i >> 16) as u8, (i >> 8) as u8, i as u8))
            }
        })
        .collect()
}

type Seq = Vec<(usize, usize, usize)>; // (op, addr index, bytes)

fn seq_json(seq: &Seq, limit: usize) -> serde_json::Value {
    json!({"kind":"stats-seq","limit":limit,"ops": seq.iter().map(|(o,a,b)| json!([OP_NAMES[*o], a, b])).collect::<Vec<_>>()})
}

/// Run one sequence through a PerClientStats with `limit`; check after every op.
fn run_limited(out: &mut Out, seq: &Seq, pool: &[IpAddr], limit: usize, check_each: bool) {
    let r = catch_unwind(AssertUnwindSafe(|| {
        let mut real = PerClientStats::verif_with_limit(limit);
        let mut model: HashMap<IpAddr, Ctrs> = HashMap::new();
        let mut overflow = 0u64;
        for (k, (op, ai, bytes)) in seq.iter().enumerate() {
            let a = &pool[*ai];
            apply_real(&mut real, *op, a, *bytes);
            out.obs("ops_applied", 1);
            let ro = real.num_overflows();
            if ro == overflow + 1 {
                overflow += 1;
                out.obs("ops_overflowed", 1);
            } else if ro == overflow {
                apply_model(model.entry(*a).or_insert([0; 9]), *op, *bytes);
            } else {
                out.violation("C17 overflow-count jumps", &format!("overflow count went from {} to {} on one event (op #{})", overflow, ro, k), seq_json(seq, limit));
                return;
            }
            let tracked = real.total_unique_clients() as usize;
            if tracked > limit {
                out.violation("C17 bound exceeded", &format!("{} addresses tracked with limit {} after op #{}", tracked, limit, k), seq_json(seq, limit));
                return;
            }
            if check_each || k + 1 == seq.len() {
                // every address: counters equal the model (this catches 'both', 'neither', 'another counter')
                for (pa, want) in pool.iter().map(|p| (p, model.get(p))) {
                    let got = real.stats_for_client(pa).map(ctrs_of);
                    let ok = match (got, want) {
                        (Some(g), Some(w)) => g == *w,
                        (None, None) => true,
                        (Some(g), None) => g == [0; 9],
                        (None, Some(w)) => *w == [0; 9],
                    };
                    if !ok {
                        out.violation(
                            &format!("C17 per-client counter differs op={}", OP_NAMES[*op]),
                            &format!("after op #{} ({} for address {}), counters of {} are {:?}, model {:?} (overflow {})", k, OP_NAMES[*op], ai, pa, got, want, overflow),
                            seq_json(seq, limit),
                        );
                        return;
                    }
                }
                if totals_of(&real) != model_totals(&model) {
                    out.violation("C17 per-client totals differ", &format!("totals {:?} vs model {:?}", totals_of(&real), model_totals(&model)), seq_json(seq, limit));
                    return;
                }
                let events: u64 = (k + 1) as u64;
                let counted: u64 = model.values().map(|c| c[0] + c[1] + c[2] + c[3] + c[4] + c[5] + c[7] + c[8]).sum();
                if counted + overflow != events {
                    out.violation("C17 conservation broken", &format!("{} events, {} counted + {} overflow", events, counted, overflow), seq_json(seq, limit));
                    return;
                }
            }
        }
        if overflow > 0 {
            out.obs("sequences_with_overflow", 1);
        }
    }));
    if r.is_err() {
        let p = take_panics().join(" | ");
        out.violation(&format!("C17 panic {}", crate::c05::panic_site(&p)), &p, seq_json(seq, limit));
    }
}

/// aggregated vs per-client totals (no overflow: large limit)
fn run_agg_vs_per(out: &mut Out, seq: &Seq, pool: &[IpAddr]) {
    let mut agg = AggregatedStats::new();
    let mut per = PerClientStats::verif_with_limit(pool.len() + 1);
    // half of the sequences have both recorders cleared at one point (what the status timer does
    // to the per-client recorder after publishing): the totals must agree before and after
    let h = seq.iter().fold(0x9e37u64, |a, (op, ai, b)| a.wrapping_mul(31).wrapping_add((*op * 7 + *ai * 3 + *b) as u64));
    let clear_at = if h % 2 == 0 && !seq.is_empty() { Some((h / 2) as usize % seq.len()) } else { None };
    for (k, (op, ai, bytes)) in seq.iter().enumerate() {
        apply_real(&mut agg, *op, &pool[*ai], *bytes);
        apply_real(&mut per, *op, &pool[*ai], *bytes);
        if clear_at == Some(k) {
            if per.num_overflows() == 0 && totals_of(&agg) != totals_of(&per) {
                out.violation("C17 aggregated-vs-per-client totals differ", &format!("aggregated {:?} per-client {:?}", totals_of(&agg), totals_of(&per)), seq_json(seq, pool.len() + 1));
                return;
            }
            agg.clear();
            per.clear();
            out.obs("agg_vs_per_clears", 1);
            if totals_of(&agg) != [0; 11] || totals_of(&per) != [0; 11] {
                out.violation(
                    "C17 clear leaves-counters",
                    &format!("after clear(): aggregated totals {:?}, per-client totals {:?} (all must be zero)", totals_of(&agg), totals_of(&per)),
                    seq_json(seq, pool.len() + 1),
                );
                return;
            }
        }
    }
    out.obs("agg_vs_per_compared", 1);
    if per.num_overflows() == 0 && totals_of(&agg) != totals_of(&per) {
        out.violation("C17 aggregated-vs-per-client totals differ", &format!("aggregated {:?} per-client {:?}", totals_of(&agg), totals_of(&per)), seq_json(seq, pool.len() + 1));
    }
}

/// split over workers with snapshot points, through the queue, into the reporter
fn run_merge(out: &mut Out, rng: &mut Rng, seq: &Seq, pool: &[IpAddr], via_csv: Option<&std::path::Path>) {
    let nworkers = rng.range(1, 8) as usize;
    let mut workers: Vec<PerClientStats> = (0..nworkers).map(|_| PerClientStats::verif_with_limit(pool.len() + 1)).collect();
    // capacity so that force_push never evicts: at most one snapshot per op plus a final one per worker
    let q = Arc::new(StatsQueue::new(seq.len() + nworkers + 1));
    let mut model: HashMap<IpAddr, Ctrs> = HashMap::new();
    let mut snapshots = 0;
    let mut snap = |w: &mut PerClientStats, q: &Arc<StatsQueue>| {
        // exactly what Server::send_client_stats does with its recorder
        let mut clients: Vec<ClientStats> = w.iter().map(|(_, s)| *s).collect();
        // workers first see an address at different times (the harness fills recorders within one
        // second; spread the timestamps as a long-running server would have them)
        FIRST_SEEN_SALT.with(|c| {
            let mut x = c.get();
            for cl in clients.iter_mut() {
                x = x.wrapping_mul(6364136223846793005).wrapping_add(1442695040888963407);
                cl.first_seen -= ((x >> 33) % 100_000) as i64;
            }
            c.set(x);
        });
        if !clients.is_empty() {
            q.force_push(clients);
            w.clear();
        }
    };
    // the reporter drains its queue once a second, i.e. several times within one reporting
    // period: some snapshots are merged by an earlier drain, the rest by later ones
    let dir = via_csv.map(|d| d.to_path_buf());
    let mut rep = Reporter::new(q.clone(), &Duration::from_secs(3600), dir.clone());
    let mut drains = 0;
    for (op, ai, bytes) in seq {
        let w = rng.usize_below(nworkers);
        apply_real(&mut workers[w], *op, &pool[*ai], *bytes);
        apply_model(model.entry(pool[*ai]).or_insert([0; 9]), *op, *bytes);
        if rng.chance(1, 6) {
            snap(&mut workers[w], &q);
            snapshots += 1;
            if rng.chance(1, 3) {
                rep.receive_client_stats();
                drains += 1;
            }
        }
    }
    for w in workers.iter_mut() {
        snap(w, &q);
        snapshots += 1;
    }
    out.obs("merge_runs", 1);
    out.obs("snapshots_pushed", snapshots);
    out.obs("reporter_drains_within_one_period", drains + 1);
    rep.receive_client_stats();
    let merged: HashMap<IpAddr, Ctrs> = rep.verif_merged().map(|c| (c.ip_addr, ctrs_of(c))).collect();
    let desc = json!({"kind":"stats-merge","workers":nworkers,"ops":seq.len()});
    for (a, want) in &model {
        let got = merged.get(a).copied().unwrap_or([0; 9]);
        if got != *want {
            let field = (0..9).find(|i| got[*i] != want[*i]).unwrap();
            out.violation(
                &format!("C17 reporter merge loses-or-invents field#{}", field),
                &format!("address {}: merged {:?}, sum over workers {:?} ({} workers, {} snapshots)", a, got, want, nworkers, snapshots),
                desc.clone(),
            );
            return;
        }
    }
    if merged.keys().any(|a| !model.contains_key(a)) {
        out.violation("C17 reporter merge invents address", "merged map holds an address no worker saw", desc.clone());
    }
    if let Some(d) = dir {
        // the real report(): CSV.zst in the persistence directory, decoded here
        let _ = std::fs::create_dir_all(&d);
        rep.report();
        let mut found = false;
        if let Ok(rd) = std::fs::read_dir(&d) {
            for e in rd.flatten() {
                let p = e.path();
                if !p.to_string_lossy().ends_with(".csv.zst") {
                    continue;
                }
                found = true;
                let f = std::fs::File::open(&p).unwrap();
                let dec = zstd::Decoder::new(f).unwrap();
                let mut rdr = csv::Reader::from_reader(dec);
                let hdr: Vec<String> = rdr.headers().unwrap().iter().map(|s| s.to_string()).collect();
                let col = |n: &str| hdr.iter().position(|h| h == n);
                let names = ["rfc_requests", "classic_requests", "invalid_requests", "health_checks", "rfc_responses_sent", "classic_responses_sent", "bytes_sent", "failed_send_attempts", "retried_send_attempts"];
                let idx: Vec<Option<usize>> = names.iter().map(|n| col(n)).collect();
                let ipc = col("ip_addr");
                let mut rows = 0;
                for rec in rdr.records().flatten() {
                    rows += 1;
                    let ip: IpAddr = rec.get(ipc.unwrap_or(0)).unwrap_or("").parse().unwrap_or(IpAddr::V4(Ipv4Addr::UNSPECIFIED));
                    let mut got = [0u64; 9];
                    for (i, ix) in idx.iter().enumerate() {
                        got[i] = ix.and_then(|x| rec.get(x)).and_then(|v| v.parse().ok()).unwrap_or(u64::MAX);
                    }
                    if model.get(&ip).map(|w| *w != got).unwrap_or(true) {
                        out.violation("C17 report csv differs", &format!("CSV row for {} is {:?}, expected {:?}", ip, got, model.get(&ip)), desc.clone());
                    }
                }
                out.obs("csv_rows_checked", rows);
                if rows as usize != model.len() {
                    out.violation("C17 report csv row-count", &format!("{} rows for {} addresses", rows, model.len()), desc.clone());
                }
                let _ = std::fs::remove_file(&p);
            }
        }
        if !found && !model.is_empty() {
            out.inconclusive("report() wrote no file");
        }
    }
}

thread_local! {
    static FIRST_SEEN_SALT: std::cell::Cell<u64> = const { std::cell::Cell::new(0x1234_5678_9abc_def1) };
}

/// Scale: one snapshot of 150 000 addresses merged by the reporter in a single pass, and byte
/// totals beyond 4 GiB for one address (two workers, 3 GB each): sums are sums at any size.
fn large_merge(out: &mut Out, rng: &mut Rng) {
    let r = catch_unwind(AssertUnwindSafe(|| {
        let n = 150_000usize;
        let mut w = PerClientStats::verif_with_limit(n + 10);
        let mut w2 = PerClientStats::verif_with_limit(16);
        let big: IpAddr = IpAddr::V4(Ipv4Addr::new(192, 0, 2, 1));
        for i in 0..n {
            let a = IpAddr::V4(Ipv4Addr::new(11, (i >> 16) as u8, (i >> 8) as u8, i as u8));
            w.add_classic_request(&a);
            if i % 3 == 0 {
                w.add_classic_response(&a, 360 + (i % 7));
            }
        }
        let chunk = 1_000_000_000usize + rng.below(1000) as usize;
        for _ in 0..3 {
            w.add_rfc_response(&big, chunk);
            w2.add_rfc_response(&big, chunk);
        }
        let q = Arc::new(StatsQueue::new(8));
        q.force_push(w.iter().map(|(_, s)| *s).collect());
        q.force_push(w2.iter().map(|(_, s)| *s).collect());
        let mut rep = Reporter::new(q.clone(), &Duration::from_secs(3600), None);
        // the reporter's loop calls this once a second until the queue is empty
        for _ in 0..4 {
            rep.receive_client_stats();
        }
        let merged: HashMap<IpAddr, Ctrs> = rep.verif_merged().map(|c| (c.ip_addr, ctrs_of(c))).collect();
        out.obs("large_merge_runs", 1);
        out.obs("large_merge_addresses", merged.len() as i64);
        let desc = json!({"kind":"stats-merge-large","addresses":n});
        if merged.len() != n + 1 {
            out.violation("C17 reporter merge loses-or-invents addresses large-snapshot", &format!("{} addresses pushed in one snapshot, {} in the merged table", n + 1, merged.len()), desc.clone());
            return;
        }
        let reqs: u64 = merged.values().map(|c| c[1]).sum();
        let resp: u64 = merged.values().map(|c| c[5]).sum();
        if reqs != n as u64 || resp != ((n + 2) / 3) as u64 {
            out.violation("C17 reporter merge loses-or-invents field#1 large-snapshot", &format!("{} classic requests / {} responses recorded, merged totals {} / {}", n, (n + 2) / 3, reqs, resp), desc.clone());
        }
        let want_big = 6 * chunk as u64;
        let got_big = merged.get(&big).map(|c| c[6]).unwrap_or(0);
        if got_big != want_big {
            out.violation("C17 reporter merge loses-or-invents field#6 beyond-4GiB", &format!("address {}: {} bytes sent over two workers, merged {}", big, want_big, got_big), desc);
        }
    }));
    out.case(0x1a46e, true);
    if r.is_err() {
        let p = take_panics().join(" | ");
        out.violation(&format!("C17 panic {} large-merge", crate::c05::panic_site(&p)), &p, json!({"kind":"stats-merge-large"}));
    }
}

fn random_seq(rng: &mut Rng, len: usize, naddr: usize) -> Seq {
    (0..len).map(|_| (rng.usize_below(NOPS), rng.usize_below(naddr), rng.range(0, 1500) as usize)).collect()
}

pub fn run(ctx: &Ctx, out: &mut Out) {
    crate::inproc::install_shard_logger(ctx.shard, out);
    let mut rng = ctx.rng("C17");
    if let Some(r) = &ctx.replay {
        out.case(1, true);
        out.case(2, true);
        if r["kind"] == "server-history" {
            crate::c09::replay_history(out, "C17", r);
        } else if r["kind"] == "stats-seq" {
            let limit = r["limit"].as_u64().unwrap() as usize;
            let seq: Seq = r["ops"]
                .as_array()
                .unwrap()
                .iter()
                .map(|o| (OP_NAMES.iter().position(|n| *n == o[0].as_str().unwrap()).unwrap(), o[1].as_u64().unwrap() as usize, o[2].as_u64().unwrap() as usize))
                .collect();
            let pool = addr_pool(64);
            run_limited(out, &seq, &pool, limit, true);
            run_agg_vs_per(out, &seq, &pool);
        } else {
            let pool = addr_pool(50);
            for _ in 0..200 {
                let s = random_seq(&mut rng, 300, 50);
                run_merge(out, &mut rng, &s, &pool, None);
            }
        }
        return;
    }
    // (1a) bounded-exhaustive: all sequences over 8 ops x 3 addresses up to length L, limits {1,2,3}
    let pool3 = addr_pool(3);
    let maxlen = if ctx.thorough { 6 } else { 5 };
    let letters = (NOPS * 3) as u64;
    let total: u64 = (1..=maxlen).map(|l| letters.pow(l)).sum();
    let mut i = ctx.shard;
    let mut done = true;
    while i < total {
        // decode index -> sequence
        let mut idx = i;
        let mut len = 1u32;
        loop {
            let c = letters.pow(len);
            if idx < c {
                break;
            }
            idx -= c;
            len += 1;
        }
        let mut seq: Seq = Vec::with_capacity(len as usize);
        for _ in 0..len {
            let l = (idx % letters) as usize;
            idx /= letters;
            seq.push((l % NOPS, l / NOPS, 100 + l));
        }
        for limit in 1..=3 {
            run_limited(out, &seq, &pool3, limit, false);
        }
        run_agg_vs_per(out, &seq, &pool3);
        out.case(i, len >= 2);
        out.obs("exhaustive_sequences", 1);
        i += ctx.nshards;
        if (i / ctx.nshards) % 8192 == 0 && !ctx.time_left() {
            done = false;
            break;
        }
    }
    out.exhaustive = Some(done);
    out.extra.insert("exhaustive_scope".into(), json!({"ops": NOPS, "addresses": 3, "max_len": maxlen, "limits": [1,2,3], "total_sequences": total, "completed": done}));
    // (1b) random long sequences over pools of 1..50 addresses, with per-op checking
    for k in 0..ctx.share(1_600, 64_000) {
        let naddr = rng.range(1, 50) as usize;
        let pool = addr_pool(naddr);
        let len = if k % 8 == 0 { 10_000 } else { rng.range(1, 400) as usize };
        let seq = random_seq(&mut rng, len, naddr);
        let limit = match rng.below(4) {
            0 => rng.range(1, 3) as usize,
            1 => naddr,
            2 => std::cmp::max(1, naddr / 2),
            _ => naddr + 1,
        };
        run_limited(out, &seq, &pool, limit, len <= 400);
        run_agg_vs_per(out, &seq, &pool);
        out.case(fnv64(format!("{:?}", &seq[..std::cmp::min(8, seq.len())]).as_bytes()) ^ k, true);
        out.obs("random_sequences", 1);
        out.obs_max("sequence_len", len as i64);
        if out.samples.len() < 2 && len < 12 {
            out.sample(seq_json(&seq, limit));
        }
        if !ctx.time_left() {
            break;
        }
    }
    // (2) worker split / snapshot points / queue / reporter
    let csvdir = ctx.scratch.join("c17csv");
    for k in 0..ctx.share(8_000, 400_000) {
        let naddr = rng.range(1, 50) as usize;
        let pool = addr_pool(naddr);
        let len = rng.range(1, 600) as usize;
        let seq = random_seq(&mut rng, len, naddr);
        let via = if k % 40 == 0 { Some(csvdir.as_path()) } else { None };
        let r = catch_unwind(AssertUnwindSafe(|| run_merge(out, &mut rng, &seq, &pool, via)));
        if r.is_err() {
            let p = take_panics().join(" | ");
            out.violation(&format!("C17 merge panic {}", crate::c05::panic_site(&p)), &p, json!({"kind":"stats-merge"}));
        }
        out.case(fnv64(format!("m{:?}", &seq[..std::cmp::min(8, seq.len())]).as_bytes()) ^ k, true);
        if via.is_some() {
            // file names have one-second resolution
            std::thread::sleep(Duration::from_millis(5));
        }
        if !ctx.time_left() {
            break;
        }
    }
    let _ = std::fs::remove_dir_all(&csvdir);
    // (3) stepped in-process server, recorder read at quiescent points
    crate::c09::run(ctx, out, "C17");
    if ctx.shard % 4 == 1 {
        large_merge(out, &mut rng);
    }
    out.floor("large_merge_runs", 1);
    out.floor("exhaustive_sequences", 100_000);
    out.floor("sequences_with_overflow", 10_000);
    out.floor("merge_runs", 500);
    out.floor("csv_rows_checked", 20);
    out.floor("agg_vs_per_compared", 100_000);
}
