/* LD_PRELOAD shim for system-call fault injection into a real server process (C18):
 * RTVERIF_FAULT_RECVFROM_EVERY=K makes every K-th recvfrom() call on a datagram socket fail with
 * the errno in RTVERIF_FAULT_ERRNO (default ENOBUFS) WITHOUT consuming a datagram, as a transient
 * kernel-side receive error would. Nothing else is touched. */
#define _GNU_SOURCE
#include <dlfcn.h>
#include <errno.h>
#include <stdlib.h>
#include <sys/socket.h>
#include <sys/types.h>

static ssize_t (*real_recvfrom)(int, void *, size_t, int, struct sockaddr *, socklen_t *) = 0;
static long every = -1;
static int fault_errno = ENOBUFS;
static unsigned long calls = 0;

ssize_t recvfrom(int fd, void *buf, size_t len, int flags, struct sockaddr *addr, socklen_t *alen) {
    if (!real_recvfrom) real_recvfrom = dlsym(RTLD_NEXT, "recvfrom");
    if (every < 0) {
        const char *e = getenv("RTVERIF_FAULT_RECVFROM_EVERY");
        every = e ? atol(e) : 0;
        const char *n = getenv("RTVERIF_FAULT_ERRNO");
        if (n) fault_errno = atoi(n);
    }
    if (every > 0) {
        int type = 0;
        socklen_t tl = sizeof(type);
        if (getsockopt(fd, SOL_SOCKET, SO_TYPE, &type, &tl) == 0 && type == SOCK_DGRAM) {
            unsigned long c = __sync_add_and_fetch(&calls, 1);
            if (c % (unsigned long)every == 0) {
                errno = fault_errno;
                return -1;
            }
        }
    }
    return real_recvfrom(fd, buf, len, flags, addr, alen);
}
