#!/usr/bin/env python3
"""tools/keep_mutant.py <ID> <N> <caught_by or '-'> : store /tmp/mut/<ID>-out/{patchN.diff,demoN.*,notesN.md}
as /verif/seeded/<ID>-<N>/ with meta.json (after tools/confirm_mutant.sh confirmed it)."""
import sys, os, shutil, json, glob
ID, N, caught = sys.argv[1], sys.argv[2], sys.argv[3]
extra = sys.argv[4] if len(sys.argv) > 4 else ""
src = "/tmp/mut/%s-out" % ID
dst = "/verif/seeded/%s-%s" % (ID, N)
PROP = ID[:3]
os.makedirs(dst, exist_ok=True)
shutil.copy(os.path.join(src, "patch%s.diff" % N), os.path.join(dst, "patch.diff"))
demos = glob.glob(os.path.join(src, "demo%s.*" % N))
demos = [d for d in demos if not d.endswith(".log") and os.path.isfile(d)]
for d in demos:
    shutil.copy(d, os.path.join(dst, os.path.basename(d)))
notes = open(os.path.join(src, "notes%s.md" % N)).read() if os.path.exists(os.path.join(src, "notes%s.md" % N)) else ""
shutil.copy(os.path.join(src, "notes%s.md" % N), os.path.join(dst, "notes.md")) if notes else None
meta = dict(breaks_property=PROP, origin="independent sub-agent given only the property text and a scratch worktree",
            needs_to_manifest=notes.strip().split("\n\n")[0][:1200] if notes else "",
            demonstration=[os.path.basename(d) for d in demos],
            confirmed_by=["tools/confirm_mutant.sh %s %s  (scratch worktree: builds, 47/47 tests pass with the change, demo passes without and fails with it)" % (ID, N)],
            checks_run=["tools/run_mutant.sh seeded/%s-%s/patch.diff quick %s  (git -C /repo apply; ./check; git -C /repo checkout -- .)" % (ID, N, PROP)],
            caught_by=[c for c in caught.split(",") if c and c != "-"], remarks=extra)
json.dump(meta, open(os.path.join(dst, "meta.json"), "w"), indent=1)
print("kept", dst, "caught_by", meta["caught_by"])
