#!/bin/bash
# tools/run_mutant.sh <patchfile> <tier> <prop>... : apply to /repo, run the checks, undo.
P=$1; TIER=$2; shift 2
git -C /repo diff --quiet || { echo "/repo not clean"; exit 2; }
git -C /repo apply $P || exit 2
for prop in "$@"; do
  OUT=$(cd /verif && ./check $prop $TIER 2>/dev/null); RC=$?
  echo "== $prop $TIER exit=$RC"; echo "$OUT" | grep -E "VIOLATION|signature:" | head -6
done
git -C /repo checkout -- .
git -C /repo status --short | grep -v '^??' | head -3
