#!/bin/bash
# tools/confirm_mutant.sh <ID> <N> : confirm in the scratch worktree /tmp/mut/<ID> that patchN
#   compiles, keeps the 47 tests green, and that demoN passes without / fails with the change.
ID=$1; N=$2; W=/tmp/mut/$ID; O=/tmp/mut/$ID-out
case $ID in C17*) export RUSTFLAGS="--cfg roughenough_verif";; esac
cd $W || exit 2
git checkout -q -- . ; git clean -qfd -e target -e Cargo.lock
mkdir -p tests
rundemo() {
  if [ -f $O/demo$N.rs ]; then cp $O/demo$N.rs tests/demo$N.rs; cp $O/*.inc tests/ 2>/dev/null; timeout 600 cargo test --offline --test demo$N >/tmp/mut/$ID-out/demo$N.log 2>&1; return $?
  elif [ -f $O/demo$N.sh ]; then (cd $W && timeout 600 bash $O/demo$N.sh >/tmp/mut/$ID-out/demo$N.log 2>&1); return $?
  elif [ -f $O/demo$N.py ]; then (cd $W && timeout 600 python3 $O/demo$N.py >/tmp/mut/$ID-out/demo$N.log 2>&1); return $?
  else echo "no demo"; return 99; fi
}
cargo build --offline --bins >/dev/null 2>&1
rundemo; A=$?
git apply $O/patch$N.diff || { echo "patch does not apply"; exit 2; }
cargo build --offline --bins >/dev/null 2>&1; B=$?
rm -f tests/demo$N.rs
T=$(cargo test --workspace --offline 2>&1 | grep -E "^test result" | head -1)
rundemo; C=$?
git checkout -q -- . ; git clean -qfd -e target -e Cargo.lock
echo "$ID patch$N: demo-without=$A build-with=$B tests-with='$T' demo-with=$C"
