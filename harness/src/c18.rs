//! C18 — under concurrent multi-worker load every request is answered once, validly.
//! C19 — SIGINT/SIGTERM at any moment stops the server cleanly and promptly.
//! Both drive the real server binary with concurrent reference clients and record a
//! client-side history that is checked after the round.

use std::net::{SocketAddr, UdpSocket};
use std::process::Command;
use std::sync::atomic::{AtomicBool, AtomicU64, Ordering};
use std::sync::Arc;
use std::time::{Duration, Instant};

use serde_json::json;

use crate::inproc::udp_drops;
use crate::out::{Ctx, Out};
use crate::procs::*;
use crate::prng::{fnv64, Rng};
use crate::refimpl::crypto::{srv_value, Proto, RefKey};
use crate::refimpl::verify::{verify_response, Opts, ReqView};

#[derive(Debug, Clone)]
pub struct Event {
    pub client: usize,
    pub seq: usize,
    pub proto: Proto,
    pub outcome: Outcome,
    pub online_pk: Vec<u8>,
    pub srep_hash: u64,
    pub rtt_us: u64,
}

#[derive(Debug, Clone, PartialEq)]
pub enum Outcome {
    /// verified, but only after the reply timeout had expired (found on the retired socket
    /// once the round was over)
    Late,
    /// no reply, and the server never became quiescent within the cap: nothing can be said
    NoReplyServerBusy,
    Verified,
    Invalid(String),
    NoReply,
    SendFailed,
}

pub struct ClientResult {
    pub events: Vec<Event>,
    pub extra_datagrams: usize,
    /// requests that were not answered within the reply timeout: (index into events, the socket
    /// they were sent from, packet, nonce). They stay open until the end of the round.
    pub open_ops: Vec<(usize, UdpSocket, Vec<u8>, Vec<u8>)>,
}

/// closed-loop client: one outstanding request at a time on its own socket
fn client_loop(id: usize, port: u16, pk: Vec<u8>, srv: Vec<u8>, seed: u64, nreq: usize, stop: Arc<AtomicBool>, reply_timeout: Duration, think_extra_us: u64) -> ClientResult {
    let mut rng = Rng::new(seed);
    let mut sock = UdpSocket::bind("127.0.0.1:0").unwrap();
    let addr: SocketAddr = format!("127.0.0.1:{}", port).parse().unwrap();
    sock.set_read_timeout(Some(reply_timeout)).unwrap();
    let mut events = Vec::with_capacity(nreq.min(100_000));
    let mut buf = vec![0u8; 4096];
    let mut misses = 0;
    let mut open_ops: Vec<(usize, UdpSocket, Vec<u8>, Vec<u8>)> = Vec::new();
    let mut last_answered = true;
    for seq in 0..nreq {
        if stop.load(Ordering::Relaxed) {
            break;
        }
        yield_to_judges();
        let proto = if rng.chance(1, 2) { Proto::Classic } else { Proto::Ietf };
        let with_srv = rng.chance(1, 2);
        let (pkt, nonce) = make_request(&mut rng, proto, if with_srv { Some(&srv) } else { None });
        let t0 = Instant::now();
        if sock.send_to(&pkt, addr).is_err() {
            events.push(Event { client: id, seq, proto, outcome: Outcome::SendFailed, online_pk: vec![], srep_hash: 0, rtt_us: 0 });
            continue;
        }
        match sock.recv_from(&mut buf) {
            Ok((n, _)) => {
                last_answered = true;
                let view = ReqView { proto, packet: &pkt, nonce };
                match verify_response(&view, &buf[..n], &pk, Opts { strict: true }) {
                    Ok(v) => events.push(Event { client: id, seq, proto, outcome: Outcome::Verified, online_pk: v.online_pk, srep_hash: fnv64(&v.srep), rtt_us: t0.elapsed().as_micros() as u64 }),
                    Err(e) => events.push(Event { client: id, seq, proto, outcome: Outcome::Invalid(e), online_pk: vec![], srep_hash: 0, rtt_us: 0 }),
                }
            }
            Err(_) => {
                events.push(Event { client: id, seq, proto, outcome: Outcome::NoReply, online_pk: vec![], srep_hash: 0, rtt_us: 0 });
                misses += 1;
                last_answered = false;
                // the operation stays open: its reply may still arrive. Retire this socket (kept
                // with the request, to be looked at once the round is over) so that a late reply
                // cannot be mistaken for the answer to the next request.
                let fresh = UdpSocket::bind("127.0.0.1:0").unwrap();
                fresh.set_read_timeout(Some(reply_timeout)).unwrap();
                let old = std::mem::replace(&mut sock, fresh);
                open_ops.push((events.len() - 1, old, pkt, nonce));
                // a dead worker would cost reply_timeout per request: three in a row is enough evidence
                if misses >= 3 {
                    break;
                }
                continue;
            }
        }
        misses = 0;
        let think = rng.below(200) + think_extra_us;
        if think > 0 {
            std::thread::sleep(Duration::from_micros(think));
        }
    }
    // anything still arriving is a second reply to some request
    sock.set_read_timeout(Some(Duration::from_millis(120))).unwrap();
    let mut extra = 0;
    let t_drain = Instant::now();
    while last_answered && extra < 1000 && t_drain.elapsed() < Duration::from_secs(2) && sock.recv_from(&mut buf).is_ok() {
        extra += 1;
    }
    ClientResult { events, extra_datagrams: extra, open_ops }
}

fn start_server(ctx: &Ctx, out: &mut Out, cfg0: &SrvCfg, tag: &str, pin: Option<&str>) -> Option<ServerProc> {
    let pk = RefKey::from_seed(&cfg0.seed).public();
    for _ in 0..3 {
        let mut cfg = cfg0.clone();
        cfg.port = free_port(false);
        cfg.pin = pin.map(|s| s.to_string());
        let sp = spawn_server(&ctx.bins, &cfg, &ctx.scratch, tag, None);
        if let Ok(mut sp) = sp {
            if sp.wait_ready(&pk, Duration::from_secs(10)).is_ok() {
                // let the remaining workers come up
                std::thread::sleep(Duration::from_millis(150));
                return Some(sp);
            }
        }
    }
    out.inconclusive("real server did not become ready");
    None
}

fn c18_round(ctx: &Ctx, out: &mut Out, rng: &mut Rng, k: u64) {
    let seed = rng.bytes(32);
    let pk = RefKey::from_seed(&seed).public();
    let srv = srv_value(&pk);
    let nworkers = [1u32, 2, 4, 8, 16][(k % 5) as usize];
    let nclients = [1usize, 4, 16, 64][((k / 5) % 4) as usize];
    let pin = match (k / 20) % 3 {
        1 => Some("0"),
        2 => Some("0,1"),
        _ => None,
    };
    let mut cfg = SrvCfg::new(0, &seed);
    cfg.num_workers = Some(nworkers);
    cfg.batch_size = Some(*rng.pick(&[1u32, 8, 64]));
    cfg.via_env = k % 2 == 1 && pin.is_none();
    // every fourth round: per-client statistics with the fastest status interval (the workers
    // publish to the shared queue every 100 ms, the reporter drains once a second)
    let stats_round = k % 4 == 3;
    if stats_round {
        let dir = ctx.scratch.join("persist18");
        std::fs::create_dir_all(&dir).ok();
        cfg.client_stats = Some("on".into());
        cfg.persistence_directory = Some(dir);
        cfg.status_interval = Some(1);
        out.obs("rounds_with_client_stats", 1);
    }
    // every fifth round: a health-check port, polled by two clients for the whole round
    let health_round = k % 5 == 2;
    if health_round {
        cfg.health_check_port = Some(free_port(true));
        out.obs("rounds_with_health_clients", 1);
    }
    // every seventh round: fault injection on. Replies may then fail verification by design; what
    // is still demanded is one reply per request, no dead worker, no panic
    let grease_round = k % 7 == 5;
    if grease_round {
        cfg.fault_percentage = Some(*rng.pick(&[1u32, 10, 50]));
        out.obs("rounds_with_fault_injection", 1);
    }
    // every ninth round: transient receive errors inside the server (every K-th recvfrom() fails
    // with ENOBUFS without consuming a datagram, injected by an LD_PRELOAD shim). Nothing is lost
    // by such an error, so every request must still be answered exactly once.
    let fshim = ctx.bins.join("faultshim.so");
    if k % 9 == 4 && fshim.exists() && std::env::var("RTVERIF_WRAP_SERVER").is_err() && ctx.mode.is_empty() {
        let every = rng.range(3, 20);
        // (a receive error costs nothing when every batch holds one request)
        cfg.batch_size = Some(*rng.pick(&[8u32, 64]));
        cfg.extra_env = vec![("LD_PRELOAD".into(), fshim.display().to_string()), ("RTVERIF_FAULT_RECVFROM_EVERY".into(), every.to_string())];
        out.obs("rounds_with_injected_receive_errors", 1);
    }
    let Some(mut sp) = start_server(ctx, out, &cfg, &format!("c18-{}", k), pin) else { return };
    let port = sp.cfg.port;
    let health_stop = Arc::new(AtomicBool::new(false));
    // the health clients fall silent while the monitor judges whether the server has settled
    let health_pause = Arc::new(AtomicBool::new(false));
    let health_threads: Vec<_> = match sp.cfg.health_check_port {
        Some(hp) if health_round => (0..2)
            .map(|hi| {
                let st = health_stop.clone();
                let pause = health_pause.clone();
                std::thread::spawn(move || {
                    let (mut ok, mut bad) = (0u64, 0u64);
                    let mut late = 0u64;
                    let mut n = 0u64;
                    while !st.load(Ordering::Relaxed) {
                        yield_to_judges();
                        if pause.load(Ordering::Relaxed) {
                            std::thread::sleep(Duration::from_millis(10));
                            continue;
                        }
                        n += 1;
                        // the second client is rude every other time: it connects and resets the
                        // connection at once (the server finds a dead peer when it accepts)
                        if hi == 1 && n % 2 == 0 {
                            if let Ok(s) = std::net::TcpStream::connect_timeout(&format!("127.0.0.1:{}", hp).parse().unwrap(), Duration::from_millis(300)) {
                                let lin = libc::linger { l_onoff: 1, l_linger: 0 };
                                unsafe {
                                    libc::setsockopt(std::os::unix::io::AsRawFd::as_raw_fd(&s), libc::SOL_SOCKET, libc::SO_LINGER, &lin as *const libc::linger as *const libc::c_void, std::mem::size_of::<libc::linger>() as u32);
                                }
                                drop(s);
                            }
                            continue;
                        }
                        match crate::c15::health_once(hp, Duration::from_secs(3)) {
                            Ok(r) if r.starts_with("HTTP/1.1 200") => ok += 1,
                            // answered late, or the server never settled: a statement about the machine
                            Err(e) if e.starts_with("LATE") || e.starts_with("BUSY") => late += 1,
                            _ => bad += 1,
                        }
                    }
                    (ok, bad + (late << 32))
                })
            })
            .collect(),
        _ => Vec::new(),
    };
    set_current_server(Some((sp.pid(), port)));
    let drops0 = udp_drops(port).unwrap_or(0);
    let per_client = if ctx.thorough { rng.range(50, 500) as usize } else { rng.range(50, 200) as usize };
    let per_client = if nclients >= 64 { per_client.min(120) } else { per_client };
    let per_client = if ctx.mode == "tsan" { per_client.min(80) } else if ctx.mode == "valgrind" { per_client.min(10) } else { per_client };
    // stats rounds must span several publish/drain cycles: think time stretches them to >= 2 s
    let per_client = if stats_round { per_client.max(400) } else { per_client };
    let stop = Arc::new(AtomicBool::new(false));
    // a valid request with UDP source port 0 now and then: the reply to it cannot be sent, which
    // must not cost anybody else their reply
    let spoof_stop = Arc::new(AtomicBool::new(false));
    let spoofer = if k % 3 == 1 {
        crate::inproc::RawUdp::new().map(|raw| {
            let st = spoof_stop.clone();
            let s0 = rng.next_u64();
            let sv = srv.clone();
            out.obs("rounds_with_port0_spoofer", 1);
            std::thread::spawn(move || {
                let mut r = Rng::new(s0);
                let addr: SocketAddr = format!("127.0.0.1:{}", port).parse().unwrap();
                let mut n = 0u64;
                while !st.load(Ordering::Relaxed) {
                    yield_to_judges();
                    let proto = if r.chance(1, 2) { Proto::Classic } else { Proto::Ietf };
                    let (pkt, _) = make_request(&mut r, proto, Some(&sv));
                    raw.send_from_port(0, addr, &pkt);
                    n += 1;
                    std::thread::sleep(Duration::from_micros(300 + r.below(700)));
                }
                n
            })
        })
    } else {
        None
    };
    let think_extra: u64 = if stats_round { 5_000 } else { 0 };
    let handles: Vec<_> = (0..nclients)
        .map(|i| {
            let (pk, srv, stop) = (pk.clone(), srv.clone(), stop.clone());
            let s = rng.next_u64();
            std::thread::spawn(move || client_loop(i, port, pk, srv, s, per_client, stop, Duration::from_secs(5), think_extra))
        })
        .collect();
    let mut results: Vec<ClientResult> = handles.into_iter().map(|h| h.join().unwrap()).collect();
    // drops during the closed-loop phase alone (before the burst, which may legitimately exceed a
    // default-sized receive buffer while the server is stopped)
    let drops_closed_loop = udp_drops(port).unwrap_or(0).saturating_sub(drops0);
    let spoofer_ran = spoofer.is_some();
    spoof_stop.store(true, Ordering::Relaxed);
    // requests that timed out are still open: once the load is over, wait until the server has
    // nothing queued and uses no CPU, then look at their (retired) sockets. A reply found there
    // was late, not lost; none there with the server quiescent means the request was lost.
    if results.iter().any(|r| !r.open_ops.is_empty()) {
        health_pause.store(true, Ordering::Relaxed);
        let quiet = sp.wait_quiescent(Duration::from_secs(if ctx.mode.is_empty() { 30 } else { 120 }));
        let mut buf = vec![0u8; 4096];
        for r in results.iter_mut() {
            let ops: Vec<_> = r.open_ops.drain(..).collect();
            for (ei, sock, pkt, nonce) in ops {
                let _ = sock.set_nonblocking(true);
                let proto = r.events[ei].proto;
                let mut got = false;
                while let Ok((n, _)) = sock.recv_from(&mut buf) {
                    let view = ReqView { proto, packet: &pkt, nonce: nonce.clone() };
                    match verify_response(&view, &buf[..n], &pk, Opts { strict: true }) {
                        Ok(_) if !got => {
                            got = true;
                            r.events[ei].outcome = Outcome::Late;
                        }
                        Ok(_) => r.extra_datagrams += 1,
                        Err(e) => r.events[ei].outcome = Outcome::Invalid(e),
                    }
                }
                if !got && !quiet && r.events[ei].outcome == Outcome::NoReply {
                    r.events[ei].outcome = Outcome::NoReplyServerBusy;
                }
            }
        }
        health_pause.store(false, Ordering::Relaxed);
    }
    if let Some(h) = spoofer {
        out.obs("port0_requests_spoofed", h.join().unwrap_or(0) as i64);
    }
    // open-loop burst on a quiet server: one socket sends 80 requests back to back (more than one
    // process_events call may answer when batch_size is 1), reads nothing meanwhile, then waits
    let mut burst_busy = false;
    let burst_missing = {
        let mut brng = Rng::new(rng.next_u64());
        let sock = UdpSocket::bind("127.0.0.1:0").unwrap();
        crate::inproc::set_rcvbuf(std::os::unix::io::AsRawFd::as_raw_fd(&sock), 1 << 20);
        let addr: SocketAddr = format!("127.0.0.1:{}", port).parse().unwrap();
        let mut pending: Vec<(Vec<u8>, Vec<u8>, Proto)> = Vec::new();
        // every other round the server is descheduled (SIGSTOP) while the burst arrives, so that
        // the whole burst is queued before its next poll returns -- a schedule the kernel may
        // produce on its own under CPU pressure
        let frozen = k % 2 == 0;
        if frozen {
            sp.signal(libc::SIGSTOP);
            std::thread::sleep(Duration::from_millis(5));
            out.obs("burst_phases_with_server_frozen", 1);
        }
        // every other round (half of them with the server frozen) the burst is preceded by batch_size
        // tiny datagrams the server must drop (one whole batch without a single valid request)
        let junk = if k % 4 == 1 || k % 4 == 2 { cfg.batch_size.unwrap_or(64) as usize } else { 0 };
        for _ in 0..junk {
            let _ = sock.send_to(&brng.rbytes(1, 24), addr);
        }
        if junk > 0 {
            out.obs("burst_phases_with_junk_prefix", 1);
        }
        let nvalid = if junk >= 32 { 60 } else { 80 };
        for j in 0..nvalid {
            let proto = if j % 2 == 0 { Proto::Classic } else { Proto::Ietf };
            let nonce = brng.bytes(proto.nonce_len());
            let pkt = match proto {
                Proto::Classic => crate::refimpl::req::classic_request(&nonce, 1024),
                Proto::Ietf => crate::refimpl::req::ietf_request(&[crate::refimpl::crypto::DRAFT13], None, &nonce, 1024),
            };
            let _ = sock.send_to(&pkt, addr);
            // a retransmission now and then: the very same datagram again, right behind the first
            // (two requests, two replies)
            if j % 10 == 3 {
                let _ = sock.send_to(&pkt, addr);
                pending.push((pkt.clone(), nonce.clone(), proto));
                out.obs("burst_retransmitted_datagrams", 1);
            }
            pending.push((pkt, nonce, proto));
        }
        if frozen {
            sp.signal(libc::SIGCONT);
        }
        sock.set_read_timeout(Some(Duration::from_millis(400))).unwrap();
        let mut buf = vec![0u8; 4096];
        let t_burst = Instant::now();
        let mut quiet_streak = 0;
        while !pending.is_empty() {
            match sock.recv_from(&mut buf) {
                Ok((n, _)) => {
                    let hit = pending.iter().position(|(pkt, nonce, proto)| verify_response(&ReqView { proto: *proto, packet: pkt, nonce: nonce.clone() }, &buf[..n], &pk, Opts { strict: true }).is_ok());
                    match hit {
                        Some(i) => {
                            pending.remove(i);
                            out.obs("burst_replies_verified", 1);
                        }
                        None if grease_round => {
                            // a deliberately broken reply: it answers one of the requests
                            pending.pop();
                            out.obs("burst_replies_invalid_under_fault_injection", 1);
                        }
                        None => {
                            out.violation("C18 burst reply-invalid", "a reply to the open-loop burst verifies for none of its outstanding requests", json!({"kind":"load-round","round":k}));
                            break;
                        }
                    }
                    if quiet_streak >= 2 {
                        sock.set_read_timeout(Some(Duration::from_millis(400))).unwrap();
                    }
                    quiet_streak = 0;
                }
                Err(_) => {
                    // silence: lost only if the server has nothing queued and is not working
                    health_pause.store(true, Ordering::Relaxed);
                    if quiet_streak >= 2 {
                        // (the pass after quiescence was established found nothing either)
                        break;
                    }
                    if sp.exited().is_some() || sp.quiescent(Duration::from_millis(150)) {
                        quiet_streak += 1;
                        if quiet_streak >= 2 {
                            // one more look at our own socket: a reply may have landed meanwhile
                            sock.set_read_timeout(Some(Duration::from_millis(5))).unwrap();
                        }
                    } else {
                        quiet_streak = 0;
                    }
                    if t_burst.elapsed() > Duration::from_secs(if ctx.mode.is_empty() { 30 } else { 120 }) {
                        burst_busy = true;
                        break;
                    }
                }
            }
        }
        out.obs("burst_phases", 1);
        health_pause.store(false, Ordering::Relaxed);
        pending.len()
    };
    health_stop.store(true, Ordering::Relaxed);
    let mut health_bad = 0u64;
    for h in health_threads {
        let (ok, bad) = h.join().unwrap_or((0, 0));
        out.obs("health_checks_during_load_ok", ok as i64);
        health_bad += bad & 0xffff_ffff;
        if bad >> 32 > 0 {
            out.inconclusive("health checks answered late / server never settled (loaded machine)");
        }
    }
    // rounds with a health port end with the process at its descriptor limit and health
    // connections pending (accept fails, nothing is dequeued): the time service must go on
    let mut accept_fault_missing = 0usize;
    let mut accept_conns: Vec<std::net::TcpStream> = Vec::new();
    if let (true, Some(hp)) = (health_round && std::env::var("RTVERIF_WRAP_SERVER").is_err(), sp.cfg.health_check_port) {
        let n = open_fds(sp.pid());
        let lim = libc::rlimit { rlim_cur: n as u64, rlim_max: n as u64 };
        let r = unsafe { libc::prlimit(sp.pid() as i32, libc::RLIMIT_NOFILE, &lim, std::ptr::null_mut()) };
        if r == 0 && n > 0 {
            for _ in 0..(12 * nworkers) {
                if let Ok(c) = std::net::TcpStream::connect_timeout(&format!("127.0.0.1:{}", hp).parse().unwrap(), Duration::from_millis(300)) {
                    accept_conns.push(c);
                }
            }
            std::thread::sleep(Duration::from_millis(100));
            let mut prng = Rng::new(rng.next_u64());
            for i in 0..48 {
                let proto = if i % 2 == 0 { Proto::Classic } else { Proto::Ietf };
                match probe(port, &pk, proto, &mut prng, Duration::from_millis(1500)) {
                    Ok(_) => out.obs("accept_fault_probes_answered", 1),
                    Err(e) if grease_round && !e.starts_with("no reply") => out.obs("accept_fault_probes_answered", 1),
                    Err(_) => accept_fault_missing += 1,
                }
            }
            out.obs("rounds_ending_at_descriptor_limit", 1);
        }
    }
    let drops1 = udp_drops(port).unwrap_or(0);
    let desc = json!({"kind":"load-round","round":k,"num_workers":nworkers,"clients":nclients,"requests_per_client":per_client,"pin":pin,"batch_size":cfg.batch_size,"source": if cfg.via_env {"ENV"} else {"file"}});
    // ---- offline check of the recorded history
    let mut workers = std::collections::HashSet::new();
    let mut batches: std::collections::HashMap<u64, Vec<usize>> = std::collections::HashMap::new();
    let (mut verified, mut missing) = (0u64, 0u64);
    let mut late = 0u64;
    for r in &results {
        if r.extra_datagrams > 0 {
            out.violation("C18 second-reply", &format!("{} datagrams arrived after the client's last request had been answered", r.extra_datagrams), desc.clone());
        }
        for e in &r.events {
            out.obs("requests_sent", 1);
            match &e.outcome {
                Outcome::Verified => {
                    verified += 1;
                    if e.proto == Proto::Classic {
                        workers.insert(e.online_pk.clone());
                    }
                    batches.entry(e.srep_hash).or_default().push(e.client);
                    out.obs_max("rtt_us", e.rtt_us as i64);
                }
                Outcome::Invalid(_) if grease_round => out.obs("replies_invalid_under_fault_injection", 1),
                Outcome::Invalid(why) => out.violation(
                    &format!("C18 reply-invalid why={}", crate::c09::reason_class(why)),
                    &format!("client {} request #{} ({}): reply does not verify for this request under the long-term key: {}", e.client, e.seq, e.proto.name(), why),
                    desc.clone(),
                ),
                Outcome::NoReply => missing += 1,
                Outcome::Late => {
                    out.obs("replies_later_than_the_reply_bound", 1);
                    late += 1;
                }
                Outcome::NoReplyServerBusy => out.inconclusive("request unanswered, server never became quiescent (overloaded machine)"),
                Outcome::SendFailed => out.inconclusive("client send failed"),
            }
        }
    }
    out.obs("replies_verified", verified as i64);
    if health_bad > 0 {
        out.violation("C18 health-check-unanswered-under-load", &format!("{} health-check connections were not answered with HTTP 200 within 3 s during the round", health_bad), desc.clone());
    }
    if late > 0 {
        // answered exactly once and validly, but later than the 5 s this monitor allows a reply:
        // a statement about the machine, not about the server
        out.inconclusive("replies arrived later than the 5 s reply bound (loaded machine)");
    }
    if burst_missing > 0 && burst_busy {
        out.inconclusive("burst not fully answered, server never became quiescent (overloaded machine)");
    } else if burst_missing > 0 {
        if drops1 != drops0 {
            out.inconclusive("kernel drop counter moved");
        } else {
            out.violation(
                &format!("C18 burst requests-unanswered batch_size={}", if cfg.batch_size == Some(1) { "1" } else { ">1" }),
                &format!("{} requests sent back to back from one socket to a quiet server were never answered: the server has nothing queued and is idle, and the kernel dropped nothing ({} workers, batch_size {:?})", burst_missing, nworkers, cfg.batch_size),
                desc.clone(),
            );
        }
    }
    if accept_fault_missing > 0 {
        out.violation(
            "C18 requests-unanswered at-descriptor-limit-with-pending-health-connections",
            &format!("{} of 48 requests went unanswered while the process was at its descriptor limit and health connections were pending ({} workers)", accept_fault_missing, nworkers),
            desc.clone(),
        );
    }
    drop(accept_conns);
    if missing > 0 {
        if drops_closed_loop > 0 && !spoofer_ran && nclients <= 16 && cfg.extra_env.is_empty() {
            // closed-loop clients have one request outstanding each (three at most, counting the
            // ones that timed out): with up to 16 clients at most 48 datagrams (about 110 KiB of
            // socket memory) were ever queued, which the default receive buffer (208 KiB) holds.
            // Drops here mean the server's socket cannot hold what it is meant to.
            out.violation(
                "C18 requests-dropped-at-the-server-socket closed-loop",
                &format!("{} closed-loop requests were lost and the kernel dropped {} datagrams at the server's socket although at most {} requests were ever outstanding ({} workers, batch_size {:?})", missing, drops_closed_loop, 3 * nclients, nworkers, cfg.batch_size),
                desc.clone(),
            );
        } else if drops1 != drops0 {
            out.inconclusive("kernel drop counter moved");
        } else {
            out.violation("C18 no-reply-within-5s", &format!("{} closed-loop requests got no reply within 5 s nor by the time the server had become idle with nothing queued, and the kernel dropped nothing ({} workers, {} clients)", missing, nworkers, nclients), desc.clone());
        }
    }
    // ---- server side
    let names = sp.thread_names();
    if sp.exited().is_some() {
        out.violation("C18 server-exited", &format!("server exited during the round: {:?}", sp.exited()), desc.clone());
    } else {
        for i in 0..nworkers {
            if !names.iter().any(|n| n == &format!("worker-{}", i)) {
                out.violation("C18 worker-died", &format!("worker-{} is gone after the round", i), desc.clone());
                break;
            }
        }
    }
    if let Some(rep) = tsan_report(&sp.output()) {
        out.obs("tsan_reports", 1);
        out.violation(&format!("C18 tsan-report {}", rep.0), &rep.1, desc.clone());
    }
    if sp.output().contains("panicked") {
        out.violation("C18 server-panicked", &sp.output().lines().filter(|l| l.contains("panicked")).take(2).collect::<Vec<_>>().join(" / "), desc.clone());
    }
    if std::env::var("RTVERIF_WRAP_SERVER").is_ok() {
        out.obs("valgrind_server_runs", 1);
        out.obs("valgrind_error_blocks", valgrind_errors(&sp.output()) as i64);
    }
    out.case(fnv64(&seed) ^ k, true);
    out.obs("rounds", 1);
    out.obs(&format!("rounds_workers_{:02}", nworkers), 1);
    out.obs(&format!("rounds_clients_{:02}", nclients), 1);
    out.obs_max("distinct_workers_answering", workers.len() as i64);
    if workers.len() >= 2 {
        out.obs("rounds_with_ge2_workers_answering", 1);
    }
    let mut comps = std::collections::HashSet::new();
    for (_, mut c) in batches {
        out.obs("batches_seen", 1);
        if c.len() >= 2 {
            out.obs("batches_ge2", 1);
        }
        out.obs_max("batch_size", c.len() as i64);
        c.sort();
        comps.insert(c);
    }
    out.obs("distinct_batch_compositions", comps.len() as i64);
    if out.samples.len() < 3 {
        out.sample(json!({"round": desc, "verified": verified, "workers_answering": workers.len(), "batch_compositions": comps.len()}));
    }
    sp.signal(libc::SIGTERM);
    if sp.wait_exit(Duration::from_secs(10)).is_none() {
        sp.kill();
    }
}

pub fn run_c18(ctx: &Ctx, out: &mut Out) {
    let mut rng = ctx.rng("C18");
    if ctx.replay.is_some() {
        out.note("C18 replay re-runs rounds with the recorded parameters' seed (schedules cannot be replayed)");
    }
    let n = ctx.share(56, 480);
    for i in 0..n {
        // only a few rounds at a time may use all CPUs; shards run concurrently by design (more contention)
        c18_round(ctx, out, &mut rng, i * ctx.nshards + ctx.shard);
        if !ctx.time_left() {
            out.note("round loop cut by wall budget");
            break;
        }
    }
    out.floor("rounds", 6);
    out.floor("replies_verified", 5_000);
    out.floor("rounds_with_ge2_workers_answering", 2);
    out.floor("batches_ge2", 10);
}

// ------------------------------------------------------------------------------------ C19

#[derive(Clone, Copy, Debug, PartialEq)]
enum Phase {
    Idle,
    ClosedLoop,
    Flood,
    /// nothing at all for half a minute (default status interval), then the signal
    LongIdle,
    /// the process is at its descriptor limit and health-check connections are pending on the
    /// listener (accept fails with EMFILE and dequeues nothing) when the signal arrives
    AcceptFault,
    /// client_stats on, datagrams from a very large population of distinct source addresses so
    /// that merging / persisting the per-client table takes long, then the signal
    Population,
    /// client_stats on with a one-second interval, closed-loop load for a few seconds while the
    /// persistence directory has been removed (or made read-only) behind the server's back: the
    /// reports fail, the signal must still stop the server cleanly
    StatsDirGone,
    /// batch_size 1 or 2, one short burst that leaves more datagrams queued than one
    /// process_events call may answer (valid requests and one-byte junk), then silence, then
    /// the signal
    BurstThenSilence,
}

/// one short datagram from each of `count` loopback source addresses base+i (IP_PKTINFO)
pub fn send_from_many_sources(port: u16, base: u32, count: u32) -> u64 {
    use std::os::unix::io::AsRawFd;
    let Ok(sock) = UdpSocket::bind("0.0.0.0:0") else { return 0 };
    let fd = sock.as_raw_fd();
    let mut dst: libc::sockaddr_in = unsafe { std::mem::zeroed() };
    dst.sin_family = libc::AF_INET as u16;
    dst.sin_port = port.to_be();
    dst.sin_addr.s_addr = u32::from_be_bytes([127, 0, 0, 1]).to_be();
    let payload = *b"hello";
    let mut ok = 0u64;
    // cmsg buffer: header + in_pktinfo, 8-byte aligned
    let mut cbuf = [0u64; 8];
    for i in 0..count {
        let src = base + i;
        let mut iov = libc::iovec { iov_base: payload.as_ptr() as *mut libc::c_void, iov_len: payload.len() };
        let mut msg: libc::msghdr = unsafe { std::mem::zeroed() };
        msg.msg_name = &mut dst as *mut _ as *mut libc::c_void;
        msg.msg_namelen = std::mem::size_of::<libc::sockaddr_in>() as u32;
        msg.msg_iov = &mut iov;
        msg.msg_iovlen = 1;
        msg.msg_control = cbuf.as_mut_ptr() as *mut libc::c_void;
        msg.msg_controllen = unsafe { libc::CMSG_SPACE(std::mem::size_of::<libc::in_pktinfo>() as u32) } as usize;
        unsafe {
            let c = libc::CMSG_FIRSTHDR(&msg);
            (*c).cmsg_level = libc::IPPROTO_IP;
            (*c).cmsg_type = libc::IP_PKTINFO;
            (*c).cmsg_len = libc::CMSG_LEN(std::mem::size_of::<libc::in_pktinfo>() as u32) as usize;
            let pi = libc::CMSG_DATA(c) as *mut libc::in_pktinfo;
            (*pi).ipi_ifindex = 0;
            (*pi).ipi_spec_dst.s_addr = src.to_be();
            (*pi).ipi_addr.s_addr = 0;
            if libc::sendmsg(fd, &msg, 0) >= 0 {
                ok += 1;
            }
        }
        if i % 256 == 255 {
            // do not overrun the server's receive buffer
            std::thread::sleep(Duration::from_micros(600));
        }
    }
    ok
}

fn open_fds(pid: u32) -> usize {
    std::fs::read_dir(format!("/proc/{}/fd", pid)).map(|d| d.count()).unwrap_or(0)
}

fn c19_run(ctx: &Ctx, out: &mut Out, rng: &mut Rng, k: u64) {
    c19_run_phase(ctx, out, rng, k, None)
}

fn c19_run_phase(ctx: &Ctx, out: &mut Out, rng: &mut Rng, k: u64, force: Option<Phase>) {
    let seed = rng.bytes(32);
    let pk = RefKey::from_seed(&seed).public();
    let srv = srv_value(&pk);
    let sig = if k % 2 == 0 { libc::SIGINT } else { libc::SIGTERM };
    let signame = if sig == libc::SIGINT { "INT" } else { "TERM" };
    let nworkers = [1u32, 4, 16][((k / 2) % 3) as usize];
    let stats_on = (k / 6) % 2 == 1;
    let phase = force.unwrap_or([Phase::Idle, Phase::ClosedLoop, Phase::Flood][((k / 12) % 3) as usize]);
    let stats_on = (stats_on && phase != Phase::LongIdle && phase != Phase::AcceptFault) || phase == Phase::Population || phase == Phase::StatsDirGone;
    let nworkers = if phase == Phase::AcceptFault { [1u32, 2, 4][(k % 3) as usize] } else if phase == Phase::Population { 4 } else { nworkers };
    let delay_us = if phase == Phase::LongIdle {
        rng.range(30_000_000, if ctx.thorough { 90_000_000 } else { 34_000_000 })
    } else if phase == Phase::StatsDirGone {
        rng.range(2_600_000, 3_600_000)
    } else {
        rng.below(300_000)
    };
    let mut cfg = SrvCfg::new(0, &seed);
    cfg.num_workers = Some(nworkers);
    cfg.batch_size = Some(if rng.chance(1, 2) { *rng.pick(&[1u32, 64]) } else { rng.range(1, 64) as u32 });
    if phase == Phase::Flood && k % 2 == 0 {
        // the floods that carry unanswerable port-0 requests (even k, see below) run with the
        // largest batches: one call then holds the most requests whose reply cannot be sent
        cfg.batch_size = Some(64);
    } else if phase == Phase::Flood && rng.chance(3, 4) {
        // small batches that are not powers of two: one signature per handful of requests makes the
        // worker slow enough for any sender to keep its queue non-empty, whatever the machine
        cfg.batch_size = Some(*rng.pick(&[3u32, 5, 6, 7]));
    }
    if stats_on {
        cfg.client_stats = Some("on".into());
        let d = ctx.scratch.join("persist19");
        std::fs::create_dir_all(&d).ok();
        cfg.persistence_directory = Some(d);
        // (0 is accepted by the server and makes the status timer fire continuously)
        cfg.status_interval = Some(if phase == Phase::Population { 10 } else if phase == Phase::StatsDirGone { 1 } else { *rng.pick(&[1u32, 10, 600, 0]) });
        if phase == Phase::StatsDirGone {
            let d = ctx.scratch.join(format!("persist19-gone-{}", k));
            std::fs::create_dir_all(&d).ok();
            cfg.persistence_directory = Some(d);
        }
    }
    if phase == Phase::AcceptFault {
        cfg.health_check_port = Some(free_port(true));
    }
    if phase == Phase::BurstThenSilence {
        cfg.batch_size = Some(*rng.pick(&[1u32, 2]));
    }
    // a quarter of the regular runs has a health port with a few clients that connect, say
    // nothing and stay connected (a half-open probe, a port scanner) when the signal arrives
    let silent_health = force.is_none() && rng.chance(1, 4);
    if silent_health {
        cfg.health_check_port = Some(free_port(true));
        out.obs("runs_with_silent_health_connections", 1);
    }
    // how the process was started and how the signal reaches it
    let start_disp = if force.is_none() { rng.below(4) } else { 0 };
    match start_disp {
        2 => cfg.ignore_signals = vec![libc::SIGHUP],
        3 => cfg.ignore_signals = vec![libc::SIGINT, libc::SIGQUIT],
        _ => {}
    }
    let delivery = if force.is_none() { rng.below(4) } else { 0 };
    let delivery_name = ["process", "one-thread", "twice", "three-mixed"][delivery as usize];
    out.obs(&format!("signal_delivery_{}", delivery_name), 1);
    out.obs(&format!("start_dispositions_{}", ["default", "default", "SIGHUP-ignored", "SIGINT-ignored"][start_disp as usize]), 1);
    let Some(mut sp) = start_server(ctx, out, &cfg, &format!("c19-{}", k), None) else { return };
    let port = sp.cfg.port;
    let desc = json!({"kind":"signal-run","run":k,"signal":signame,"num_workers":nworkers,"client_stats":stats_on,"phase":format!("{:?}", phase),"delay_us":delay_us,"delivery":delivery_name,"ignored_at_start":format!("{:?}", cfg.ignore_signals)});
    let stop = Arc::new(AtomicBool::new(false));
    let sent = Arc::new(AtomicU64::new(0));
    let mut client_handles = Vec::new();
    let mut flood_handles = Vec::new();
    #[allow(unused_assignments)]
    let mut accept_conns: Vec<std::net::TcpStream> = Vec::new();
    match phase {
        Phase::Idle | Phase::LongIdle => {}
        Phase::BurstThenSilence => {
            let sock = UdpSocket::bind("127.0.0.1:0").unwrap();
            let addr: SocketAddr = format!("127.0.0.1:{}", port).parse().unwrap();
            let mut r = Rng::new(rng.next_u64());
            for i in 0..200 {
                if i % 7 == 0 {
                    let (pkt, _) = make_request(&mut r, if i % 2 == 0 { Proto::Classic } else { Proto::Ietf }, None);
                    let _ = sock.send_to(&pkt, addr);
                } else {
                    let _ = sock.send_to(&[0x55u8], addr);
                }
            }
            out.obs("burst_then_silence_datagrams", 200);
        }
        Phase::StatsDirGone => {
            if let Some(d) = &cfg.persistence_directory {
                if k % 2 == 0 {
                    let _ = std::fs::remove_dir_all(d);
                    out.obs("stats_dir_removed_while_running", 1);
                } else {
                    // replaced by a plain file of the same name
                    let _ = std::fs::remove_dir_all(d);
                    let _ = std::fs::write(d, b"not a directory");
                    out.obs("stats_dir_replaced_by_file_while_running", 1);
                }
            }
            for i in 0..8 {
                let (pk, srv, stop) = (pk.clone(), srv.clone(), stop.clone());
                let s = rng.next_u64();
                client_handles.push(std::thread::spawn(move || client_loop(i, port, pk, srv, s, 1_000_000, stop, Duration::from_millis(300), 200)));
            }
        }
        Phase::AcceptFault => {
            // the limit is lowered to what the process has open, then connections are queued on
            // the health listener: every worker's accept fails with EMFILE and nothing is dequeued
            let n = open_fds(sp.pid());
            let lim = libc::rlimit { rlim_cur: n as u64, rlim_max: n as u64 };
            let r = unsafe { libc::prlimit(sp.pid() as i32, libc::RLIMIT_NOFILE, &lim, std::ptr::null_mut()) };
            if r != 0 || n == 0 {
                out.inconclusive("prlimit on the server failed");
            }
            let hp = cfg.health_check_port.unwrap();
            let mut conns = Vec::new();
            for _ in 0..(24 * nworkers) {
                if let Ok(c) = std::net::TcpStream::connect_timeout(&format!("127.0.0.1:{}", hp).parse().unwrap(), Duration::from_millis(300)) {
                    conns.push(c);
                }
            }
            out.obs("accept_fault_pending_connections", conns.len() as i64);
            // the connections stay open (pending) until the run is over
            accept_conns = conns;
            std::thread::sleep(Duration::from_millis(100));
        }
        Phase::Population => {
            let total: u32 = if ctx.thorough { 3_600_000 } else { 2_400_000 };
            let nthreads = 4u32;
            let hs: Vec<_> = (0..nthreads)
                .map(|t| {
                    let per = total / nthreads;
                    let base = u32::from_be_bytes([127, 1, 0, 0]) + t * per;
                    std::thread::spawn(move || send_from_many_sources(port, base, per))
                })
                .collect();
            let okn: u64 = hs.into_iter().map(|h| h.join().unwrap_or(0)).sum();
            out.obs("population_datagrams_sent", okn as i64);
            // wait for the reporter to persist the table (bounded), so the signal arrives afterwards
            let t0 = Instant::now();
            let mut wrote = None;
            while t0.elapsed() < Duration::from_secs(40) {
                let o = sp.output();
                if let Some(l) = o.lines().find(|l| l.contains("Wrote ") && l.contains(" records")) {
                    wrote = l.split("Wrote ").nth(1).and_then(|x| x.split(' ').next()).and_then(|x| x.parse::<i64>().ok());
                    break;
                }
                std::thread::sleep(Duration::from_millis(200));
            }
            match wrote {
                Some(n) => {
                    out.obs("population_phase_reports_written", 1);
                    out.obs_max("population_rows_persisted_max", n);
                }
                None => out.inconclusive("population phase: no stats report seen within 40 s"),
            }
            // the workers must still answer
            let mut prng = Rng::new(k ^ 0x9091);
            if probe(port, &pk, Proto::Classic, &mut prng, Duration::from_millis(1500)).is_err() && probe(port, &pk, Proto::Ietf, &mut prng, Duration::from_millis(1500)).is_err() {
                out.violation("C19 population unanswered-after-report", "the server stopped answering after persisting a large per-client table", desc.clone());
            }
        }
        Phase::ClosedLoop => {
            for i in 0..16 {
                let (pk, srv, stop) = (pk.clone(), srv.clone(), stop.clone());
                let s = rng.next_u64();
                client_handles.push(std::thread::spawn(move || client_loop(i, port, pk, srv, s, 1_000_000, stop, Duration::from_millis(300), 0)));
            }
        }
        Phase::Flood => {
            // enough senders to keep the receive queue of a worker non-empty: all of them hit the
            // single worker of a one-worker server; with more workers the flows spread by source port
            let nsend = if nworkers == 1 { rng.range(8, 14) } else { rng.range(4, 14) } as usize;
            // what the flood is made of: a mix, or only one kind of datagram
            let flood_kind = k % 4;
            out.obs(&format!("flood_kind_{}", ["mixed", "classic-only", "ietf-only", "invalid-only"][flood_kind as usize]), 1);
            // every other flood also carries valid requests whose UDP source port is 0 (raw
            // socket): the replies to them cannot be sent, whatever the server does about that
            // must not keep it from noticing the signal
            if k % 2 == 0 {
                if let Some(raw) = crate::inproc::RawUdp::new() {
                    let (stop, srv) = (stop.clone(), srv.clone());
                    let s0 = rng.next_u64();
                    out.obs("floods_with_unanswerable_port0_requests", 1);
                    flood_handles.push(std::thread::spawn(move || {
                        let mut r = Rng::new(s0);
                        let addr: SocketAddr = format!("127.0.0.1:{}", port).parse().unwrap();
                        let pkts: Vec<Vec<u8>> = (0..16).map(|j| make_request(&mut r, if j % 2 == 0 { Proto::Classic } else { Proto::Ietf }, Some(&srv)).0).collect();
                        while !stop.load(Ordering::Relaxed) {
                            for p in &pkts {
                                raw.send_from_port(0, addr, p);
                            }
                        }
                    }));
                }
            }
            for i in 0..nsend {
                let (stop, sent, srv) = (stop.clone(), sent.clone(), srv.clone());
                let s = rng.next_u64();
                flood_handles.push(std::thread::spawn(move || {
                    let mut rng = Rng::new(s ^ i as u64);
                    let sock = UdpSocket::bind("127.0.0.1:0").unwrap();
                    sock.set_nonblocking(true).unwrap();
                    let addr: SocketAddr = format!("127.0.0.1:{}", port).parse().unwrap();
                    // mostly valid requests, some datagrams the server must drop
                    let pkts: Vec<Vec<u8>> = (0..32)
                        .map(|j| match flood_kind {
                            1 => make_request(&mut rng, Proto::Classic, None).0,
                            2 => make_request(&mut rng, Proto::Ietf, Some(&srv)).0,
                            3 => {
                                let mut d = crate::dgen::hostile(&mut rng, &srv).data;
                                if crate::refimpl::req::expectation(&d, &srv).0 != crate::refimpl::req::Expect::MustNot {
                                    d.truncate(40);
                                }
                                d
                            }
                            _ => {
                                if j % 8 == 7 {
                                    crate::dgen::hostile(&mut rng, &srv).data
                                } else {
                                    make_request(&mut rng, if j % 2 == 0 { Proto::Classic } else { Proto::Ietf }, Some(&srv)).0
                                }
                            }
                        })
                        .collect();
                    // replies are not needed and never read: with a minimal receive buffer the
                    // kernel discards them, and the sender does nothing but send (any pause long
                    // enough for the worker to empty its queue would end the "flood")
                    crate::inproc::set_rcvbuf(std::os::unix::io::AsRawFd::as_raw_fd(&sock), 2048);
                    let mut n = 0u64;
                    while !stop.load(Ordering::Relaxed) {
                        for p in &pkts {
                            let _ = sock.send_to(p, addr);
                            n += 1;
                        }
                    }
                    sent.fetch_add(n, Ordering::Relaxed);
                }));
            }
        }
    }
    let mut silent_conns: Vec<std::net::TcpStream> = Vec::new();
    if let (true, Some(hp)) = (silent_health, sp.cfg.health_check_port) {
        for _ in 0..rng.range(1, 2 * nworkers as u64) {
            if let Ok(c) = std::net::TcpStream::connect_timeout(&format!("127.0.0.1:{}", hp).parse().unwrap(), Duration::from_millis(300)) {
                silent_conns.push(c);
            }
        }
        std::thread::sleep(Duration::from_millis(30));
    }
    std::thread::sleep(Duration::from_micros(delay_us));
    let alive_before = sp.exited().is_none();
    match delivery {
        1 => {
            // to one thread of the process (a worker, the reporter, the signal helper or main)
            let ts = sp.threads();
            if ts.is_empty() {
                sp.signal(sig);
            } else {
                let (tid, name) = ts[rng.usize_below(ts.len())].clone();
                out.obs(&format!("signal_to_thread_{}", name.split('-').next().unwrap_or("?")), 1);
                sp.signal_thread(tid, sig);
            }
        }
        2 => {
            sp.signal(sig);
            std::thread::sleep(Duration::from_micros(rng.below(60_000)));
            sp.signal(sig);
        }
        3 => {
            sp.signal(sig);
            std::thread::sleep(Duration::from_micros(rng.below(20_000)));
            sp.signal(if sig == libc::SIGINT { libc::SIGTERM } else { libc::SIGINT });
            std::thread::sleep(Duration::from_micros(rng.below(200_000)));
            sp.signal(sig);
        }
        _ => sp.signal(sig),
    }
    let t_sig = Instant::now();
    // the load keeps going until the server exits or the bound expires
    // (a server that needs more than 10 s while it is being flooded is the violation this check
    // exists for: extending the wait "because its threads are busy" would excuse exactly that)
    let res = sp.wait_exit(Duration::from_secs(10));
    let slow_exit = false;
    stop.store(true, Ordering::Relaxed);
    drop(accept_conns);
    drop(silent_conns);
    let mut verified = 0u64;
    let mut invalid: Option<String> = None;
    for h in client_handles {
        let r = h.join().unwrap();
        for e in r.events {
            match e.outcome {
                Outcome::Verified => verified += 1,
                Outcome::Invalid(w) => invalid = Some(w),
                _ => {}
            }
        }
    }
    for h in flood_handles {
        let _ = h.join();
    }
    out.case(fnv64(&seed) ^ k, true);
    out.obs("signal_runs", 1);
    out.obs(&format!("phase_{:?}", phase), 1);
    out.obs(&format!("signal_{}", signame), 1);
    out.obs(&format!("workers_{:02}", nworkers), 1);
    out.obs(&format!("client_stats_{}", stats_on), 1);
    out.obs("replies_verified_before_exit", verified as i64);
    out.obs("flood_datagrams_sent", sent.load(Ordering::Relaxed) as i64);
    if !alive_before {
        out.violation("C19 server-died-before-signal", &format!("{:?}", sp.exited()), desc.clone());
        return;
    }
    match res {
        Some((st, dt)) => {
            out.obs_max("time_to_exit_ms", dt.as_millis() as i64);
            let bucket = if dt < Duration::from_millis(500) { "<0.5s" } else if dt < Duration::from_secs(3) { "0.5-3s" } else { "3-10s" };
            out.obs(&format!("time_to_exit_{}", bucket), 1);
            if st.code() != Some(0) {
                out.violation(
                    &format!("C19 exit-status-nonzero signal={} phase={:?}{}", signame, phase, if delivery != 0 || start_disp >= 2 { format!(" delivery={} ignored-at-start={}", delivery_name, start_disp >= 2) } else { String::new() }),
                    &format!("exit {:?} {:?} after SIG{} ({} workers, client_stats {}): {}", st, dt, signame, nworkers, stats_on, sp.output().lines().filter(|l| l.contains("panicked")).take(2).collect::<Vec<_>>().join(" / ")),
                    desc.clone(),
                );
            }
            if slow_exit {
                out.inconclusive("exit took more than 10 s with threads runnable throughout (overloaded machine?)");
            } else if dt >= Duration::from_secs(3) {
                out.inconclusive("exit took 3-10 s (slow; the statement says 'a few seconds')");
            }
        }
        None => {
            out.violation(
                &format!("C19 alive>10s signal={} phase={:?}", signame, phase),
                &format!("server still running 10 s after SIG{} while the {:?} load continued ({} workers, client_stats {}, {} flood datagrams)", signame, phase, nworkers, stats_on, sent.load(Ordering::Relaxed)),
                desc.clone(),
            );
            // does it at least exit once the load stops? (recorded as information)
            let after = sp.wait_exit(Duration::from_secs(5));
            out.obs(if after.is_some() { "info_exited_after_load_stopped" } else { "info_never_exited" }, 1);
            sp.kill();
        }
    }
    let o = sp.output();
    if let Some(rep) = tsan_report(&o) {
        out.obs("tsan_reports", 1);
        out.violation(&format!("C19 tsan-report {}", rep.0), &rep.1, desc.clone());
    }
    if o.contains("panicked") {
        let site = o.lines().find(|l| l.contains("panicked at")).and_then(|l| l.split("panicked at ").nth(1)).unwrap_or("").split(':').next().unwrap_or("").to_string();
        let site = site.find("src/").map(|i| site[i..].to_string()).unwrap_or(site);
        out.violation(&format!("C19 panic-output {} phase={:?}", site, phase), &o.lines().filter(|l| l.contains("panicked")).take(2).collect::<Vec<_>>().join(" / "), desc.clone());
    }
    if let Some(w) = invalid {
        out.violation(&format!("C19 reply-invalid-before-exit why={}", crate::c09::reason_class(&w)), &w, desc.clone());
    }
    let _ = t_sig;
    if out.samples.len() < 3 {
        out.sample(json!({"run": desc, "exit": res.map(|(s, d)| format!("{:?} after {:?}", s.code(), d)), "replies_verified_before_exit": verified}));
    }
}

pub fn run_c19(ctx: &Ctx, out: &mut Out) {
    let mut rng = ctx.rng("C19");
    if ctx.replay.is_some() {
        out.note("C19 replay re-runs signal runs with the same parameters (the instant cannot be replayed exactly)");
    }
    let n = ctx.share(72, 1_080);
    for i in 0..n {
        // interleave so that every shard sees every phase/signal/worker combination over time
        c19_run(ctx, out, &mut rng, i * ctx.nshards + ctx.shard + (ctx.seed % 36));
        // (the quick tier always completes its two full factorials: detection of changes that
        // need one particular phase x flood kind must not depend on how busy the machine is)
        if ctx.thorough && !ctx.time_left() {
            out.note("run loop cut by wall budget");
            break;
        }
    }
    // the forced phases (after the regular runs): one long-idle run per check in quick, several in thorough
    if ctx.shard == 0 || (ctx.thorough && ctx.shard < 4) {
        c19_run_phase(ctx, out, &mut rng, 1000 + ctx.shard, Some(Phase::LongIdle));
    }
    if ctx.shard == 1 || (ctx.thorough && ctx.shard == 5) {
        c19_run_phase(ctx, out, &mut rng, 2000 + ctx.shard, Some(Phase::Population));
    }
    if ctx.shard == 5 || (ctx.thorough && ctx.shard >= 6) {
        for j in 0..2 {
            c19_run_phase(ctx, out, &mut rng, 4000 + 2 * ctx.shard + j, Some(Phase::StatsDirGone));
        }
    }
    if (2..5).contains(&ctx.shard) || ctx.thorough {
        for j in 0..2 {
            c19_run_phase(ctx, out, &mut rng, 5000 + 2 * ctx.shard + j, Some(Phase::BurstThenSilence));
        }
    }
    if (2..5).contains(&ctx.shard) || ctx.thorough {
        for j in 0..(if ctx.thorough { 6 } else { 2 }) {
            c19_run_phase(ctx, out, &mut rng, 3000 + 3 * j + ctx.shard, Some(Phase::AcceptFault));
        }
    }
    out.floor("phase_LongIdle", 1);
    out.floor("phase_AcceptFault", 2);
    out.floor("phase_Population", 1);
    out.floor("phase_StatsDirGone", 2);
    out.floor("phase_BurstThenSilence", 2);
    out.floor("population_phase_reports_written", 1);
    out.floor("signal_runs", 20);
    out.floor("phase_Idle", 1);
    out.floor("phase_ClosedLoop", 1);
    out.floor("phase_Flood", 1);
    out.floor("signal_INT", 1);
    out.floor("signal_TERM", 1);
}


/// first ThreadSanitizer report in a process output: (kind + first roughenough frame, excerpt)
pub fn tsan_report(o: &str) -> Option<(String, String)> {
    let i = o.find("WARNING: ThreadSanitizer")?;
    let block: Vec<&str> = o[i..].lines().take(40).collect();
    let kind = block[0].trim_start_matches("WARNING: ThreadSanitizer: ").split('(').next().unwrap_or("").trim().to_string();
    let frame = block.iter().find(|l| l.contains("roughenough::")).map(|l| {
        let f = l.split("roughenough::").nth(1).unwrap_or("");
        format!("roughenough::{}", f.split(|c: char| c == ' ' || c == '(').next().unwrap_or(""))
    });
    Some((format!("{} {}", kind, frame.unwrap_or_else(|| "?".into())), block.join(" | ").chars().take(1500).collect()))
}
