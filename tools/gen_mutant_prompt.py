import re,json,sys,os
design=open('/verif/DESIGN.md').read()
props={json.loads(l)['id']:json.loads(l) for l in open('/verif/properties.jsonl')}
tmpl=open('/verif/tools/mutant_prompt_example_round5_C19.txt').read()
for P in sys.argv[1:]:
    ID=P+'h'
    tried=[]
    for m in re.finditer(r'^\| %s \| (.*?) \| (.*?) \|$'%P, design, re.M):
        tried.append(m.group(1))
    t=tmpl.replace('C19e',ID)
    t=t.replace('up to THREE different','up to TWO different').replace('Prefer three changes','Prefer two changes').replace('(1..3)','(1..2)').replace('cannot find three','cannot find two')
    t=re.sub(r'This is a FIFTH round\. Previous developers already tried the following changes for this property; do NOT repeat them or trivial variants of them — find different sites and different mechanisms: .*?\n', 'This is a EIGHTH round. Previous developers already tried the following changes for this property; do NOT repeat them or trivial variants of them — find different sites and different mechanisms: '+' ;; '.join(tried).replace('\\','\\\\')+'\nYou have a hard limit of about 15 minutes of wall-clock time: deliver the first confirmed change as soon as you have it, then a second only if time allows.\n', t, flags=re.S, count=1)
    os.makedirs('/tmp/mut/%s-out'%ID, exist_ok=True)
    open('/tmp/mut/%s-out/PROPERTY.txt'%ID,'w').write(json.dumps(props[P],indent=1))
    open('/tmp/mut/%s-prompt.txt'%ID,'w').write(t)
    print(ID,len(tried),len(t))
