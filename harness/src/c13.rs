//! C13 — incremental signer/verifier equal one-shot RFC 8032 Ed25519, no carry-over.
//! Oracles: ring (reference signer/verifier) and ed25519-dalek called directly.

use std::panic::{catch_unwind, AssertUnwindSafe};

use ed25519_dalek::{Signer, Verifier};
use roughenough::sign::{MsgSigner, MsgVerifier};
use serde_json::json;

use crate::inproc::take_panics;
use crate::out::{Ctx, Out};
use crate::prng::{fnv64, hex, unhex, Rng};
use crate::refimpl::crypto::{ed_verify, RefKey};

/// split `msg` into chunks by one of several strategies
fn chunking(rng: &mut Rng, msg: &[u8]) -> (Vec<Vec<u8>>, &'static str) {
    match rng.below(6) {
        0 => (vec![msg.to_vec()], "one"),
        1 if msg.len() <= 300 => (msg.iter().map(|b| vec![*b]).collect(), "bytes"),
        2 => {
            // random cuts with some empty chunks
            let mut out = Vec::new();
            let mut at = 0;
            while at < msg.len() {
                if rng.chance(1, 5) {
                    out.push(vec![]);
                }
                let l = rng.range(1, std::cmp::max(1, std::cmp::min(64, (msg.len() - at) as u64))) as usize;
                out.push(msg[at..at + l].to_vec());
                at += l;
            }
            if rng.chance(1, 2) {
                out.push(vec![]);
            }
            (out, "random+empty")
        }
        3 => {
            let k = if msg.is_empty() { 0 } else { rng.usize_below(msg.len() + 1) };
            (vec![msg[..k].to_vec(), msg[k..].to_vec()], "two")
        }
        4 => (vec![vec![], msg.to_vec(), vec![]], "empty-around"),
        _ => {
            let mut out = Vec::new();
            for c in msg.chunks(std::cmp::max(1, rng.range(1, 1100) as usize)) {
                out.push(c.to_vec());
            }
            (out, "fixed")
        }
    }
}

fn msg_len(rng: &mut Rng, k: u64) -> usize {
    // every length 0..=4096 appears as the sequence counter passes it
    if k <= 4096 {
        return k as usize;
    }
    (match rng.below(5) {
        0 => rng.range(0, 130),
        1 => *rng.pick(&[1023u64, 1024, 1025, 2047, 2048, 4095, 4096, 127, 128, 129, 63, 64, 65]),
        _ => rng.range(0, 4096),
    }) as usize
}

fn dalek_sign(seed: &[u8], msg: &[u8]) -> Vec<u8> {
    let sk = ed25519_dalek::SigningKey::from_bytes(seed.try_into().unwrap());
    sk.sign(msg).to_bytes().to_vec()
}

fn dalek_verify(pk: &[u8], msg: &[u8], sig: &[u8]) -> bool {
    let Ok(pkb): Result<[u8; 32], _> = pk.try_into() else { return false };
    let Ok(vk) = ed25519_dalek::VerifyingKey::from_bytes(&pkb) else { return false };
    let Ok(s) = ed25519_dalek::Signature::from_slice(sig) else { return false };
    vk.verify(msg, &s).is_ok()
}

/// the implementation under test; a panic anywhere counts as "does not accept"
fn impl_verify(pk: &[u8], chunks: &[Vec<u8>], sig: &[u8]) -> (bool, bool) {
    let r = catch_unwind(AssertUnwindSafe(|| {
        let mut v = MsgVerifier::new(pk);
        for c in chunks {
            v.update(c);
        }
        v.verify(sig)
    }));
    match r {
        Ok(b) => (b, false),
        Err(_) => {
            take_panics();
            (false, true)
        }
    }
}

fn signer_sequence(out: &mut Out, rng: &mut Rng, seq_idx: u64) {
    let seed = match rng.below(10) {
        0 => vec![0u8; 32],
        1 => vec![0xff; 32],
        2 => {
            let mut s = vec![0u8; 32];
            s[rng.usize_below(32)] = 1 << rng.below(8);
            s
        }
        _ => rng.bytes(32),
    };
    let refk = RefKey::from_seed(&seed);
    let nmsgs = if seq_idx % 4 == 0 { rng.range(2, 32) } else { rng.range(1, 4) } as usize;
    let r = catch_unwind(AssertUnwindSafe(|| {
        let mut signer = MsgSigner::from_seed(&seed);
        let pk = signer.public_key_bytes();
        if pk != refk.public() {
            out.violation("C13 signer public-key differs-from-ring", &format!("seed {}", hex(&seed)), json!({"kind":"sign","seed":hex(&seed),"msgs":[]}));
        }
        let mut log: Vec<(String, Vec<usize>)> = Vec::new();
        for k in 0..nmsgs {
            let len = msg_len(rng, seq_idx * 4 + k as u64);
            let msg = rng.bytes(len);
            let (chunks, how) = chunking(rng, &msg);
            for c in &chunks {
                signer.update(c);
            }
            let sig = signer.sign();
            log.push((hex(&msg), chunks.iter().map(|c| c.len()).collect()));
            out.obs("signatures_compared", 1);
            out.obs(&format!("chunking_{}", how), 1);
            if k > 0 {
                out.obs("signatures_after_earlier_message", 1);
            }
            out.obs_max("message_len", len as i64);
            let want = refk.sign(&msg);
            let want2 = dalek_sign(&seed, &msg);
            if want != want2 {
                out.inconclusive("oracles disagree (ring vs dalek sign)");
                continue;
            }
            if sig != want {
                let carried = k > 0;
                out.violation(
                    &format!("C13 signature differs chunking={} after-earlier={}", how, carried),
                    &format!("message #{} of {} (len {}) signed in chunks {:?}: signature differs from one-shot Ed25519 of the concatenation", k, nmsgs, len, chunks.iter().map(|c| c.len()).collect::<Vec<_>>()),
                    json!({"kind":"sign","seed":hex(&seed),"msgs": log.iter().map(|(m,c)| json!({"msg":m,"chunks":c})).collect::<Vec<_>>()}),
                );
                return;
            }
            // the produced signature verifies through the incremental verifier as well
            let (ok, _) = impl_verify(&pk, &chunks, &sig);
            out.obs("verifications", 1);
            out.obs("own_signatures_verified", ok as i64);
            if !ok {
                out.violation(&format!("C13 verifier rejects own-signature chunking={}", how), "MsgVerifier rejects a signature MsgSigner produced", json!({"kind":"verify","pk":hex(&pk),"chunks":chunks.iter().map(|c| hex(c)).collect::<Vec<_>>(),"sig":hex(&sig)}));
            }
            if out.samples.len() < 3 && len < 40 {
                out.sample(json!({"seed": hex(&seed), "msg": hex(&msg), "chunks": chunks.iter().map(|c| c.len()).collect::<Vec<_>>(), "sig": hex(&sig)}));
            }
            // keep a few triples for the third (pure-Python RFC 8032) oracle
            let e = out.extra.entry("pyref_samples").or_insert_with(|| json!([]));
            if e.as_array().unwrap().len() < 4 && len <= 64 {
                e.as_array_mut().unwrap().push(json!({"seed": hex(&seed), "pk": hex(&pk), "msg": hex(&msg), "sig": hex(&sig)}));
            }
        }
    }));
    out.case(fnv64(&seed) ^ seq_idx, true);
    if r.is_err() {
        let p = take_panics().join(" | ");
        out.violation(&format!("C13 signer panic {}", crate::c05::panic_site(&p)), &p, json!({"kind":"sign","seed":hex(&seed),"msgs":[]}));
    }
}

/// Several signer and verifier objects alive at once, fed in interleaved order on one thread,
/// some abandoned in the middle of a message, some moved to another thread between update()
/// and sign(): every object must behave as if it were alone.
fn interleaved_objects(out: &mut Out, rng: &mut Rng, idx: u64) {
    let nobj = rng.range(2, 5) as usize;
    let seeds: Vec<Vec<u8>> = (0..nobj).map(|i| if i > 0 && rng.chance(1, 3) { vec![7u8; 32] } else { rng.bytes(32) }).collect();
    let r = catch_unwind(AssertUnwindSafe(|| {
        let mut signers: Vec<MsgSigner> = seeds.iter().map(|s| MsgSigner::from_seed(s)).collect();
        let pks: Vec<Vec<u8>> = signers.iter().map(|s| s.public_key_bytes()).collect();
        let rounds = rng.range(1, 4);
        for round in 0..rounds {
            // an abandoned object: fed part of a message, then dropped without sign()
            if rng.chance(1, 3) {
                let mut ghost = MsgSigner::from_seed(&rng.bytes(32));
                ghost.update(&rng.rbytes(1, 200));
                drop(ghost);
                out.obs("interleave_abandoned_signers", 1);
            }
            let msgs: Vec<Vec<u8>> = (0..nobj).map(|_| rng.rbytes(0, 300)).collect();
            let chunks: Vec<Vec<Vec<u8>>> = msgs.iter().map(|m| chunking(rng, m).0).collect();
            // feed the chunks of all objects in a random interleaving
            let mut cursor = vec![0usize; nobj];
            let mut verifiers: Vec<MsgVerifier> = Vec::new();
            loop {
                let pending: Vec<usize> = (0..nobj).filter(|i| cursor[*i] < chunks[*i].len()).collect();
                if pending.is_empty() {
                    break;
                }
                let i = *rng.pick(&pending);
                signers[i].update(&chunks[i][cursor[i]]);
                cursor[i] += 1;
            }
            // sign in a random order; one of the signers signs on another thread
            let mut order: Vec<usize> = (0..nobj).collect();
            rng.shuffle(&mut order);
            let mut sigs: Vec<Vec<u8>> = vec![Vec::new(); nobj];
            let moved = if rng.chance(1, 3) { Some(order[0]) } else { None };
            for i in order {
                if moved == Some(i) {
                    let s = std::mem::replace(&mut signers[i], MsgSigner::from_seed(&seeds[i]));
                    let (s, sig) = std::thread::spawn(move || {
                        let mut s = s;
                        let sig = s.sign();
                        (s, sig)
                    })
                    .join()
                    .expect("signing thread");
                    signers[i] = s;
                    sigs[i] = sig;
                    out.obs("interleave_signed_on_other_thread", 1);
                } else {
                    sigs[i] = signers[i].sign();
                }
            }
            for i in 0..nobj {
                out.obs("interleaved_signatures_compared", 1);
                let want = RefKey::from_seed(&seeds[i]).sign(&msgs[i]);
                if sigs[i] != want {
                    out.violation(
                        &format!("C13 signature differs interleaved-objects moved-thread={}", moved == Some(i)),
                        &format!("{} signer objects fed in interleaved order (round {}): object #{} (message of {} bytes) does not give the one-shot signature of its own message", nobj, round, i, msgs[i].len()),
                        json!({"kind":"sign-interleaved","seeds":seeds.iter().map(|s| hex(s)).collect::<Vec<_>>(),"msgs":msgs.iter().map(|m| hex(m)).collect::<Vec<_>>()}),
                    );
                    return;
                }
            }
            // verifiers: all created first, then fed interleaved, then asked in random order; a
            // fourth of them is asked about ANOTHER object's signature and must refuse it
            for i in 0..nobj {
                verifiers.push(MsgVerifier::new(&pks[i]));
            }
            let mut cursor = vec![0usize; nobj];
            loop {
                let pending: Vec<usize> = (0..nobj).filter(|i| cursor[*i] < chunks[*i].len()).collect();
                if pending.is_empty() {
                    break;
                }
                let i = *rng.pick(&pending);
                verifiers[i].update(&chunks[i][cursor[i]]);
                cursor[i] += 1;
            }
            let mut order: Vec<usize> = (0..nobj).collect();
            rng.shuffle(&mut order);
            for i in order {
                let j = (i + 1) % nobj;
                let cross = rng.chance(1, 4) && (msgs[i] != msgs[j] || seeds[i] != seeds[j]);
                let sig = if cross { &sigs[j] } else { &sigs[i] };
                let got = verifiers[i].verify(sig);
                let want = ed_verify(&pks[i], &msgs[i], sig);
                out.obs("interleaved_verifications", 1);
                if got != want {
                    out.violation(
                        &format!("C13 verifier {} interleaved-objects", if got { "accepts-invalid" } else { "rejects-valid" }),
                        &format!("{} verifier objects fed in interleaved order: object #{} says {} for {} signature, one-shot verification of its own message says {}", nobj, i, got, if cross { "another object's" } else { "its own" }, want),
                        json!({"kind":"verify-interleaved","pks":pks.iter().map(|s| hex(s)).collect::<Vec<_>>(),"msgs":msgs.iter().map(|m| hex(m)).collect::<Vec<_>>()}),
                    );
                    return;
                }
            }
        }
    }));
    out.case(fnv64(&seeds[0]) ^ idx ^ 0x1e47, true);
    if r.is_err() {
        let p = take_panics().join(" | ");
        out.violation(&format!("C13 signer panic interleaved-objects {}", crate::c05::panic_site(&p)), &p, json!({"kind":"sign-interleaved"}));
    }
}

fn verify_case(out: &mut Out, pk: &[u8], chunks: &[Vec<u8>], sig: &[u8], what: &str) {
    let msg: Vec<u8> = chunks.concat();
    let want = dalek_verify(pk, &msg, sig);
    let (got, panicked) = impl_verify(pk, chunks, sig);
    out.obs("verifications", 1);
    out.obs(if want { "oracle_accepts" } else { "oracle_rejects" }, 1);
    if panicked {
        out.obs("verifier_panics_counted_as_reject", 1);
    }
    // ring as a cross-check of the oracle on cases where both are defined identically
    if want != ed_verify(pk, &msg, sig) {
        out.obs("info_ring_dalek_verify_disagree", 1);
    }
    if got != want {
        out.violation(
            &format!("C13 verifier {} case={}", if got { "accepts-invalid" } else { "rejects-valid" }, what),
            &format!("MsgVerifier says {} but direct Ed25519 verification says {} ({})", got, want, what),
            json!({"kind":"verify","pk":hex(pk),"chunks":chunks.iter().map(|c| hex(c)).collect::<Vec<_>>(),"sig":hex(sig)}),
        );
    }
}

fn verifier_flips(out: &mut Out, rng: &mut Rng, idx: u64) {
    let seed = rng.bytes(32);
    let refk = RefKey::from_seed(&seed);
    let pk = refk.public();
    let len = (idx % 65) as usize;
    let msg = rng.bytes(len);
    let sig = refk.sign(&msg);
    let (chunks, _) = chunking(rng, &msg);
    out.case(fnv64(&seed), true);
    verify_case(out, &pk, &chunks, &sig, "valid");
    // every single-bit flip of the message
    for bit in 0..len * 8 {
        let mut m = msg.clone();
        m[bit / 8] ^= 1 << (bit % 8);
        let (c, _) = if bit % 16 == 0 { chunking(rng, &m) } else { (vec![m.clone()], "one") };
        verify_case(out, &pk, &c, &sig, "message-bit-flip");
        out.obs("bit_flips_message", 1);
    }
    for bit in 0..512 {
        let mut s = sig.clone();
        s[bit / 8] ^= 1 << (bit % 8);
        verify_case(out, &pk, &chunks, &s, "signature-bit-flip");
        out.obs("bit_flips_signature", 1);
    }
    for bit in 0..256 {
        let mut k = pk.clone();
        k[bit / 8] ^= 1 << (bit % 8);
        verify_case(out, &k, &chunks, &sig, "key-bit-flip");
        out.obs("bit_flips_key", 1);
    }
    // wrong message / truncated / extended
    let mut m2 = msg.clone();
    m2.push(0);
    verify_case(out, &pk, &[m2], &sig, "message-extended");
    if !msg.is_empty() {
        verify_case(out, &pk, &[msg[..msg.len() - 1].to_vec()], &sig, "message-truncated");
    }
    // signature by another key
    let other = RefKey::from_seed(&rng.bytes(32));
    verify_case(out, &pk, &chunks, &other.sign(&msg), "other-key-signature");
    // a signature is 64 bytes: the genuine one followed by anything, or cut short, is not one
    for extra in [1usize, 4, 32, 64] {
        let mut s = sig.clone();
        s.extend_from_slice(&rng.bytes(extra));
        verify_case(out, &pk, &chunks, &s, "signature-with-trailing-bytes");
        out.obs("signature_length_cases", 1);
    }
    let mut z = sig.clone();
    z.extend_from_slice(&[0u8; 64]);
    verify_case(out, &pk, &chunks, &z, "signature-with-trailing-bytes");
    for cut in [0usize, 1, 32, 63] {
        verify_case(out, &pk, &chunks, &sig[..cut], "signature-truncated");
        out.obs("signature_length_cases", 1);
    }
}

/// small-order points (and two non-canonical encodings) as public key and as R, S = 0: triples
/// that plain RFC 8032 verification may accept for any message. The incremental verifier must
/// agree with the direct one here as well.
fn weak_key_vectors(out: &mut Out, rng: &mut Rng) {
    const POINTS: [&str; 10] = [
        "0100000000000000000000000000000000000000000000000000000000000000",
        "ecffffffffffffffffffffffffffffffffffffffffffffffffffffffffffff7f",
        "0000000000000000000000000000000000000000000000000000000000000000",
        "0000000000000000000000000000000000000000000000000000000000000080",
        "26e8958fc2b227b045c3f489f2ef98f0d5dfac05d3c63339b13802886d53fc05",
        "26e8958fc2b227b045c3f489f2ef98f0d5dfac05d3c63339b13802886d53fc85",
        "c7176a703d4dd84fba3c0b760d10670f2a2053fa2c39ccc64ec7fd7792ac037a",
        "c7176a703d4dd84fba3c0b760d10670f2a2053fa2c39ccc64ec7fd7792ac03fa",
        "eeffffffffffffffffffffffffffffffffffffffffffffffffffffffffffff7f",
        "edffffffffffffffffffffffffffffffffffffffffffffffffffffffffffff7f",
    ];
    for pk in POINTS {
        for r in POINTS {
            let pkb = unhex(pk).unwrap();
            let mut sig = unhex(r).unwrap();
            sig.extend_from_slice(&[0u8; 32]);
            for k in 0..4 {
                let msg = rng.rbytes(0, 40);
                let chunks = if k % 2 == 0 { vec![msg.clone()] } else { chunking(rng, &msg).0 };
                verify_case(out, &pkb, &chunks, &sig, "small-order-key-or-R");
                out.obs("weak_key_vectors", 1);
            }
        }
    }
    // keys that do not decode to a curve point at all: nothing verifies under them, in particular
    // not the "identity" signature (R = neutral element, S = 0)
    let mut identity_sig = unhex(POINTS[0]).unwrap();
    identity_sig.extend_from_slice(&[0u8; 32]);
    let mut found = 0;
    while found < 40 {
        let k = rng.bytes(32);
        let Ok(kb): Result<[u8; 32], _> = k.clone().try_into() else { continue };
        if ed25519_dalek::VerifyingKey::from_bytes(&kb).is_ok() {
            continue;
        }
        found += 1;
        for r in [0usize, 1, 4] {
            let mut sig = unhex(POINTS[r]).unwrap();
            sig.extend_from_slice(&[0u8; 32]);
            let msg = rng.rbytes(0, 20);
            verify_case(out, &k, &[msg], &sig, "undecodable-key");
            out.obs("undecodable_key_vectors", 1);
        }
    }
    let _ = identity_sig;
    // signature malleability: (R, S + L) must be rejected (RFC 8032 requires S < L). The oracle
    // here is ring, which is not built from the repository's dependency features.
    const L: [u8; 32] = [0xed, 0xd3, 0xf5, 0x5c, 0x1a, 0x63, 0x12, 0x58, 0xd6, 0x9c, 0xf7, 0xa2, 0xde, 0xf9, 0xde, 0x14, 0, 0, 0, 0, 0, 0, 0, 0, 0, 0, 0, 0, 0, 0, 0, 0x10];
    for _ in 0..40 {
        let key = RefKey::from_seed(&rng.bytes(32));
        let pk = key.public();
        let msg = rng.rbytes(0, 64);
        let sig = key.sign(&msg);
        let mut s2 = sig.clone();
        let mut carry = 0u16;
        for i in 0..32 {
            let v = s2[32 + i] as u16 + L[i] as u16 + carry;
            s2[32 + i] = v as u8;
            carry = v >> 8;
        }
        if carry != 0 {
            continue;
        }
        out.obs("malleability_vectors", 1);
        let ring_says = ed_verify(&pk, &msg, &s2);
        let (got, _) = impl_verify(&pk, &[msg.clone()], &s2);
        if ring_says {
            out.inconclusive("ring accepted S+L");
        } else if got {
            out.violation(
                "C13 verifier accepts-invalid case=S-plus-L",
                "MsgVerifier accepts (R, S + L) for a valid (R, S): RFC 8032 verification requires S < L (ring rejects it)",
                json!({"kind":"verify","pk":hex(&pk),"chunks":[hex(&msg)],"sig":hex(&s2)}),
            );
        }
    }
    out.case(0x5eed_0bad, true);
}

pub fn run(ctx: &Ctx, out: &mut Out) {
    crate::inproc::install_shard_logger(ctx.shard, out);
    let mut rng = ctx.rng("C13");
    if let Some(r) = &ctx.replay {
        out.case(1, true);
        out.case(2, true);
        if r["kind"] == "verify" {
            let pk = unhex(r["pk"].as_str().unwrap()).unwrap();
            let sig = unhex(r["sig"].as_str().unwrap()).unwrap();
            let chunks: Vec<Vec<u8>> = r["chunks"].as_array().unwrap().iter().map(|c| unhex(c.as_str().unwrap()).unwrap()).collect();
            verify_case(out, &pk, &chunks, &sig, "replay");
        } else {
            let seed = unhex(r["seed"].as_str().unwrap()).unwrap();
            let refk = RefKey::from_seed(&seed);
            let mut signer = MsgSigner::from_seed(&seed);
            for m in r["msgs"].as_array().unwrap() {
                let msg = unhex(m["msg"].as_str().unwrap()).unwrap();
                let mut at = 0;
                for c in m["chunks"].as_array().unwrap() {
                    let l = c.as_u64().unwrap() as usize;
                    signer.update(&msg[at..at + l]);
                    at += l;
                }
                if signer.sign() != refk.sign(&msg) {
                    out.violation("C13 signature differs replay", "replayed sequence reproduces the difference", r.clone());
                }
            }
        }
        return;
    }
    let nseq = ctx.share(12_000, 600_000);
    for i in 0..nseq {
        signer_sequence(out, &mut rng, i * ctx.nshards + ctx.shard);
        if i % 16 == 0 && !ctx.time_left() {
            out.note("signer loop cut by wall budget");
            break;
        }
    }
    for i in 0..ctx.share(3_000, 160_000) {
        interleaved_objects(out, &mut rng, i);
        if i % 64 == 0 && !ctx.time_left() {
            break;
        }
    }
    if ctx.shard < 4 {
        weak_key_vectors(out, &mut rng);
    }
    if ctx.shard == 4 || ctx.nshards < 5 {
        alloc_fault_probes(out, &mut rng);
    }
    let nflip = ctx.share(400, 20_000);
    for i in 0..nflip {
        verifier_flips(out, &mut rng, i * ctx.nshards + ctx.shard);
        if !ctx.time_left() {
            out.note("verifier loop cut by wall budget");
            break;
        }
    }
    out.floor("signatures_compared", 2_000);
    out.floor("interleaved_signatures_compared", 1_000);
    out.floor("interleaved_verifications", 1_000);
    out.floor("signatures_after_earlier_message", 500);
    out.floor("verifications", 20_000);
    out.floor("oracle_accepts", 40);
    out.floor("weak_key_vectors", 400);
    out.floor("undecodable_key_vectors", 100);
    out.floor("malleability_vectors", 50);
    out.floor("own_signatures_verified", 2_000);
    out.floor("oracle_rejects", 10_000);
}


/// child process: sign a three-chunk message (600 + 600 + 3000 bytes, so the signer's buffer has
/// to grow twice) while the k-th large allocation inside update() fails. Prints the signature in
/// hex if it gets that far. An abort (the allocation-failure handler) is a legitimate outcome.
pub fn allocprobe(seed_hex: &str, k: i64) {
    let seed = unhex(seed_hex).unwrap();
    let msg: Vec<u8> = (0..4200u32).map(|i| (i * 7 + 3) as u8).collect();
    let mut signer = MsgSigner::from_seed(&seed);
    crate::ALLOC_FAIL_IN.store(k, std::sync::atomic::Ordering::SeqCst);
    signer.update(&msg[..600]);
    signer.update(&msg[600..1200]);
    signer.update(&msg[1200..]);
    crate::ALLOC_FAIL_IN.store(-1, std::sync::atomic::Ordering::SeqCst);
    let sig = signer.sign();
    println!("{}", hex(&sig));
}

/// parent side of the allocation-fault probe
fn alloc_fault_probes(out: &mut Out, rng: &mut Rng) {
    let seed = rng.bytes(32);
    let msg: Vec<u8> = (0..4200u32).map(|i| (i * 7 + 3) as u8).collect();
    let want = hex(&RefKey::from_seed(&seed).sign(&msg));
    for k in 0..4i64 {
        let exe = std::env::current_exe().unwrap();
        let Ok(o) = std::process::Command::new(exe).args(["allocprobe", &hex(&seed), &k.to_string()]).output() else {
            out.inconclusive("allocprobe spawn failed");
            continue;
        };
        out.obs("alloc_fault_probes", 1);
        out.case(fnv64(&seed) ^ (0xa110c + k as u64), true);
        let printed = String::from_utf8_lossy(&o.stdout).trim().to_string();
        if o.status.success() && !printed.is_empty() {
            if printed == want {
                out.obs("alloc_fault_no_effect", 1);
            } else {
                out.violation(
                    "C13 signature differs after-allocation-failure",
                    &format!("with the {}-th large allocation inside update() failing, sign() returned a signature that is not the signature of the bytes fed (a chunk was dropped silently)", k + 1),
                    json!({"kind":"allocprobe","seed":hex(&seed),"k":k}),
                );
            }
        } else {
            // the process died in the allocation-failure handler: nothing wrong was signed
            out.obs("alloc_fault_aborted", 1);
        }
    }
}
