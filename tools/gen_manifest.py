#!/usr/bin/env python3
"""Regenerates /verif/MANIFEST.json from the table below (run from /verif)."""
import json, os, subprocess
HERE = os.path.dirname(os.path.dirname(os.path.abspath(__file__)))
ids = [json.loads(l)["id"] for l in open(os.path.join(HERE, "properties.jsonl"))]

T = {
 "C01": ("real client process vs forging reference responder; reference-verifier oracle (runtime monitor)",
         "Held on the explored executions of the real roughenough-client binary: 35 forgery operators (incl. correctly signed but malformed responses, malleated (R, S+L) signatures and unsigned top-level tags overriding the signed ones), keys given in unreadable spellings, x both protocols x hex (lower/upper/mixed case) / base64 pinned key x plain/json/verbose x -n 1..16, each delivered datagram classified by an independent verifier; a violation is a concrete client run that printed a time / exited 0 for a response the reference rejects. Exploration, not proof: operators and random mutations sample the space of hostile datagrams.",
         "Trusted: reference codec/verifier/responder in harness/src/refimpl (ring Ed25519, sha2 SHA-512), loopback UDP, client observed only through argv/exit status/stdout/stderr."),
 "C02": ("stepped in-process Server; every emitted datagram checked by an independent spec-derived verifier (runtime monitor)",
         "Every datagram a real Server emitted on the explored histories (every batch_size 1..=64, bursts below/at/above it, mixed protocols, request sizes 1024..=1500, long runs on one server) verified under the reference verifier (own key derivation from the seed, 32-byte truncated hash at every IETF node, leaf over the whole packet, NONC echo, INDX/PATH consistency, VER/VERS); fault injection: failing share within 6 sigma of p over >= 2000 replies. Exploration over seeds/histories.",
         "Trusted: reference verifier; batches identified by identical SREP bytes; loopback delivery is lossless unless the kernel drop counter moves (then inconclusive)."),
 "C03": ("real client process vs honest reference responder and vs real server process; exact expected stdout (runtime monitor)",
         "Every explored run of the real client against an honest responder (reference implementation with its own keys, and the real server binary with multi-request batches) exited 0, printed exactly the signed midpoint converted from the protocol unit, and showed verified exactly when a key was given. Exploration over protocol x key option x batch size/index x midpoint grid.",
         "Trusted: reference responder is honest per the protocol descriptions (self-tested against the reference verifier); chrono's %s/%f formatting; TZ=UTC."),
 "C04": ("MerkleTree public API driven over all batch shapes; self-recomputation + fresh-tree differential oracle (runtime monitor)",
         "For every leaf count 1..=255, every position, both hash profiles and six leaf classes the issued path recomputed the root; for distinct leaves no other leaf / in-range index / changed, removed or appended path element did; a reused tree equalled a fresh tree for all ordered size pairs in scope and sampled longer sequences. Bounded-exhaustive over sizes, sampled over leaf bytes.",
         "Trusted: ring SHA-512 collision resistance; the repository's own root_from_paths is the recomputation the property names (spec conformance of the hash widths is C02's verdict)."),
 "C05": ("RtMessage codec vs independent reference codec: bounded-exhaustive word strings + structured mutants + API round trips (runtime differential monitor)",
         "from_bytes agreed with the reference decoder (accept/reject and content) on every word string in the stated scope and on all mutants; every accepted non-empty message re-encoded to the identical bytes; API-built messages round-tripped; framing equalled magic+LE length; enum tag order equalled numeric order for all 324 pairs. Exhaustive in the small scope, sampled beyond.",
         "Trusted: reference codec in harness/src/refimpl/codec.rs (written from the format description, self-tested)."),
 "C06": ("RtMessage::from_bytes and Display under catch_unwind over hostile byte strings, deep-nesting probes in child processes (runtime monitor; Miri/ASan layers in thorough)",
         "No panic and no value bytes differing from the input on every explored byte string (lengths 0..=65536: exhaustive small scope, random strings, count/offset/tag mutants, nested-garbage carriers, nesting to 8000 levels), and Display returned normally for every accepted message. Exploration; sanitizer layers add undefined-behaviour detection on the same paths.",
         "Trusted: catch_unwind observes all panics (stack exhaustion is observed as a child-process signal); a formatting run longer than 25 s is recorded as slow, not as a verdict."),
 "C07": ("stepped in-process Server, one datagram per socket per round; reply => independently well-formed request, |reply| <= |request| (runtime monitor)",
         "On the explored datagrams (lengths 0..=65507, 40 hostile classes, all aligned nonce lengths, frame-length sweeps, sizes around both window edges, full batches for every batch_size 1..=64) a reply was observed only for datagrams the independent predicate accepts, and no reply was longer than the datagram that elicited it. Exploration.",
         "Trusted: reference request predicate; a sentinel reply proves earlier datagrams were processed (FIFO socket, synchronous sends)."),
 "C08": ("stepped in-process Server under a capturing logger at each level; catch_unwind + sentinel oracle (runtime monitor; ASan layer in thorough)",
         "process_events never unwound and a following valid request was answered with a verifying reply for every explored datagram sequence at every log level Off..Trace, fault_percentage {0,1,25,50}, batch_size {1,2,7,63,64}. Exploration over sequences.",
         "Trusted: the harness logger formats every record like a real logger; a step that does not return within 60 s counts as wedged."),
 "C09": ("stepped in-process Server with up to 64 sockets; offline exactly-once check of the recorded per-socket history (runtime monitor)",
         "In every explored history each accepted request got exactly one reply, on its own socket, verifying for its own request; rejected datagrams got none; classic and IETF never shared a signed response; batches never exceeded batch_size. Exploration over interleavings chosen by the harness (batch composition is controlled by stepping).",
         "Trusted: reference verifier for matching replies to requests (multiset semantics); kernel drop counters for loss detection."),
 "C10": ("LongTermKey API vs ring/sha2, and CERTs collected from in-process Servers over restarts and instances (runtime monitor)",
         "For every explored seed the announced public key equalled ring's RFC 8032 key, SRV equalled SHA-512(0xff||pk)[0..32], construction was deterministic; every CERT observed (API and from replies of both protocols, across restarts and concurrent instances) verified under that key with its own protocol's context only and its window contained the midpoint. Exploration over seeds.",
         "Trusted: ring Ed25519 and sha2; restarts are modelled by dropping and rebuilding the Server in-process (the real binary is restarted in C15/C19 runs)."),
 "C11": ("make_srep over a clock grid + running in-process Server bracketed by harness clock readings (runtime monitor)",
         "MIDP equalled floor(clock) in microseconds (classic) / seconds (IETF) and RADI 5 s in the same unit for every explored clock value (72 boundary points, random instants to year 9999) under four process time zones; every reply from a running server had MIDP within the harness's [before, after] readings, also while the real server's wall clock was stepped by +-1 h, +400 d, -30 d through an LD_PRELOAD shim. Exploration.",
         "Trusted: one host clock; a monotonic-vs-wall discrepancy > 50 ms makes a bracket inconclusive; the clock shim (harness/c/clockshim.c) adds a whole-second offset to CLOCK_REALTIME only."),
 "C12": ("stepped in-process Server; exhaustive version lists x SRV modes against the two implications of the statement (runtime monitor)",
         "Over all version lists in scope x SRV absent/correct/wrong and every single-bit SRV corruption: answered only with draft-13 listed and a matching/absent SRV, always answered when draft-13 is among the first four; every reply carried VER=draft-13 and a well-formed VERS inside the signed part. Exhaustive in scope.",
         "Trusted: reference request builder/verifier; lists with draft-13 only beyond position 4 are unconstrained by the statement."),
 "C13": ("MsgSigner/MsgVerifier vs ring and ed25519-dalek called directly, chunkings and message sequences, all single-bit corruptions (runtime differential monitor)",
         "Every explored signature (lengths 0..=4096, six chunkings, sequences up to 32 messages on one signer) equalled the one-shot signature of the concatenation under two independent implementations; the verifier agreed with direct verification on valid triples and on every single-bit flip of message, signature and key; non-canonical (R, S+L) signatures, small-order and undecodable keys are judged by ring and a pure-Python RFC 8032 reference, not by the dalek build under test; a child process with a failing allocator never printed a wrong signature. Exploration over seeds/messages; exhaustive over bit positions per triple.",
         "Trusted: ring and ed25519-dalek one-shot APIs; a verifier panic is counted as 'does not accept'."),
 "C14": ("EnvelopeEncryption with harness KMS providers; fault enumeration over every blob position, truncation, extension and provider fault",
         "For every explored blob (plaintexts 32..=64 bytes, wrapped-key lengths 16..=1024 with a provider that really hides the key): round trip returned the seed; every single-byte/bit modification at every position (all 255 other values for the length-field bytes), every truncation, extensions 1..=64 and every provider fault yielded Err, never a plaintext or panic; the blob contained neither seed nor data key. Fault enumeration per blob, sampled over blobs.",
         "Trusted: ring AES-GCM; harness providers are faithful KMS stand-ins."),
 "C15": ("real server process per configuration observed from outside: /proc thread names, probe replies, TCP health replies, stderr, liveness (runtime monitor)",
         "Every explored start of the real server binary (example.cfg as shipped; a covering sample in quick / the full documented grid in thorough; file and ENV sources) became ready, showed all worker-N threads, answered probes from every worker (distinct per-worker delegated keys) with verifying replies, answered sequential and burst health-check connections with HTTP 200 while UDP service continued (also right after a burst queued while the process was stopped, with a junk-only first batch and reset connections), also when pinned to fewer CPUs than workers, printed no panic, and stayed alive for the 3 s observation window. Exploration over configurations; 'stays alive' is decided over the window only.",
         "Trusted: per-worker identity = distinct DELE.PUBK among classic replies; readiness = first verifying reply within 10 s; port collisions with foreign processes are inconclusive; burst requests count as unanswered only once the server has settled (all threads blocked, receive queue unchanged)."),
 "C16": ("probe child process calling the real make_config+is_valid_config, confirmed by starting the real server (runtime monitor against the documented option table)",
         "For every documented key x boundary value x source: in-range values were reported unchanged by the getters through both sources; out-of-range values, missing required keys, unknown keys, empty values and malformed seeds never led to a serving server; spot checks on the running binary (worker threads, first-batch size, failing share at fault_percentage 1/25/49/50, written health port already taken) agreed with the written values. Bounded grid, exhaustive over it; thorough adds random in-range combinations.",
         "Trusted: the option table transcribed from README.md / config/mod.rs docs; a start that dies is a refusal."),
 "C18": ("real multi-worker server under concurrent closed-loop reference clients; offline exactly-once check of the client-side history; TSan build in thorough (runtime monitor + race detector)",
         "In every explored round each request got exactly one reply verifying for that request under the single long-term key, no late second reply, no worker died, no panic, health-check clients polling during the load were answered, open-loop bursts (server stopped while they queue, optionally behind a junk-only batch) were answered completely; across rounds replies came from up to 16 distinct workers and thousands of distinct batch compositions. Schedules and SO_REUSEPORT placement are sampled and perturbed (client counts, CPU pinning, think times), not enumerated.",
         "Trusted: a request is lost iff the server has settled without answering it (all threads in state S and the UDP receive queue of its port unchanged over two 150 ms windows, read from /proc); replies later than 5 s are inconclusive, as is a moved kernel drop counter; reference verifier."),
 "C19": ("real server + signals swept over delivery instants and load phases; exit status/time, stderr and pre-exit replies observed (fault enumeration over signal instants; TSan build in thorough)",
         "For every explored (signal, workers, client_stats, phase, delay) - phases idle, closed-loop, flood of four compositions, half a minute idle, descriptor limit reached with health connections pending, 2.4 M-address per-client table persisted - the process exited with status 0 within 10 s (observed maxima in evidence), printed no panic, and every reply received before exit verified. Instants are swept 0-300 ms in random microsecond steps; 3-10 s exits are recorded as slow (inconclusive).",
         "Trusted: 10 s bound as the reading of 'a few seconds'; signals delivered with kill(2) to the process."),
 "C17": ("PerClientStats/AggregatedStats/Reporter vs reference counter model; bounded-exhaustive op sequences, worker splits, and in-process Server recorder read via hook (runtime model monitor)",
         "Each event was reflected exactly once (own counter or overflow) and tracked addresses never exceeded the limit on every sequence in scope; aggregated == per-client totals without overflow; Reporter merge preserved all per-address sums (hook and decoded CSV.zst); server recorder totals equalled datagrams sent/received by the harness at every quiescent point. Exhaustive in small scope, sampled beyond.",
         "Trusted: hooks verif_with_limit / verif_stats / verif_merged are read-only; queue sized so force_push never evicts (eviction is by design lossy)."),
 "C20": ("needle search over every emitted datagram and captured log record (in-process, Trace) and over real-server stdout/stderr",
         "Neither the seed nor the clamped private scalar appeared in raw/hex/HEX/base64/base64url/half/Debug-list form in any datagram, log record or process output on the explored seeds, traffic mixes and configuration sources (including 21 kinds of failing start-up and the configuration loaders run under a Trace-level capturing logger). Exploration over seeds.",
         "Trusted: needle encodings listed in the evidence cover the practical ways a secret is printed; random seeds only."),
}
LEVEL = {"C14": "fault_enumeration", "C19": "fault_enumeration"}
checks = []
for i in ids:
    if i not in T: continue
    tech, text, note = T[i]
    checks.append(dict(property_id=i, quick_cmd="./check %s quick" % i, thorough_cmd="./check %s thorough" % i,
                       evidence_file="evidence/%s.json" % i, replay_cmd_template="./check %s --replay {path}" % i,
                       engine="rtverif", level_claimed=dict(category=LEVEL.get(i, "exploration"), text=text, design_ref="DESIGN.md sec. 7 (%s)" % i),
                       level_note=note, technique=tech))
commits = subprocess.run(["git", "-C", "/repo", "log", "--format=%h %s"], capture_output=True, text=True).stdout.splitlines()
hook_commits = [c.split()[0] for c in commits if c.split(" ", 1)[1].startswith("verif hooks")]
m = dict(version=1, setup_cmd="./setup.sh",
         hooks=dict(guard="--cfg roughenough_verif", enable="RUSTFLAGS='--cfg roughenough_verif' is set by ./check for every cargo build of /repo (harness workspace generated under target/)",
                    baseline_off_cmd="cd /repo && cargo test --workspace --no-fail-fast --offline", source_commits=hook_commits, add_only=True),
         engines=[dict(name="rtverif", path="harness/", serves_properties=[c["property_id"] for c in checks],
                       kind_free_text="Rust harness linking the real roughenough library and driving the real binaries; independent reference oracles; python dispatcher ./check shards, merges, writes evidence")],
         checks=checks,
         not_applicable=[dict(property_id=i, reason="monitor still under construction in this revision (DESIGN.md sec. 7); not a limitation of the technique") for i in ids if i not in T],
         notes="All checks: runtime monitoring of the real code. KNOWN_FINDINGS.txt lists recorded/fixed defects. Exit 2 = harness error (never a VIOLATION line).")
json.dump(m, open(os.path.join(HERE, "MANIFEST.json"), "w"), indent=1)
print("checks:", [c["property_id"] for c in checks])
