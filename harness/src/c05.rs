//! C05 — wire codec round-trips, is canonical, agrees with the reference codec.
//! C06 — decoding and printing untrusted bytes never panics / reads out of bounds.
//! Both run the real `RtMessage` API inside this process against `refimpl::codec`.

use std::panic::{catch_unwind, AssertUnwindSafe};

use roughenough::{RtMessage, Tag};
use serde_json::json;

use crate::codecgen::*;
use crate::inproc::take_panics;
use crate::out::{Ctx, Out};
use crate::prng::{fnv64, hex, Rng};
use crate::refimpl::codec::*;

fn tag_of(t: u32) -> Option<Tag> {
    Tag::from_wire(&t.to_le_bytes()).ok()
}

fn wire_of(t: &Tag) -> u32 {
    let w = t.wire_value();
    u32::from_le_bytes([w[0], w[1], w[2], w[3]])
}

fn content_of(m: &RtMessage) -> Vec<(u32, Vec<u8>)> {
    m.tags().iter().map(wire_of).zip(m.values().iter().cloned()).collect()
}

fn short(b: &[u8]) -> String {
    if b.len() <= 96 {
        hex(b)
    } else {
        format!("{}..({} bytes)", hex(&b[..96]), b.len())
    }
}

fn replay_bytes(kind: &str, b: &[u8], extra: serde_json::Value) -> serde_json::Value {
    json!({"kind": kind, "bytes_hex": hex(b), "len": b.len(), "info": extra})
}

/// the differential + canonicity oracle on one byte string. Returns true if accepted.
pub fn check_decode(out: &mut Out, prop: &str, b: &[u8], origin: &str) -> bool {
    let r = catch_unwind(AssertUnwindSafe(|| RtMessage::from_bytes(b)));
    let refr = RefMsg::decode(b);
    let real = match r {
        Ok(x) => x,
        Err(_) => {
            let p = take_panics().join(" | ");
            if prop == "C06" {
                let site = panic_site(&p);
                out.violation(&format!("C06 from_bytes panic {}", site), &format!("from_bytes panicked on {} input: {}", origin, p), replay_bytes("decode", b, json!({"origin": origin})));
            } else if refr.is_ok() {
                // C05: a panic is "does not accept"; the panic itself is C06's verdict
                out.violation("C05 rejects-what-reference-accepts err=panic", &format!("from_bytes panicked on {} which the reference decoder accepts: {}", short(b), p), replay_bytes("decode", b, json!({"origin": origin})));
            }
            return false;
        }
    };
    match (&real, &refr) {
        (Ok(m), Ok(rm)) => {
            out.obs("accepted_by_both", 1);
            let c = content_of(m);
            if c != rm.fields {
                out.violation(
                    &format!("{} decode content-differs origin={}", prop, origin),
                    &format!("from_bytes and the reference decoder accept {} but disagree on tags/values", short(b)),
                    replay_bytes("decode", b, json!({"origin": origin})),
                );
            }
            if !rm.fields.is_empty() {
                out.obs("accepted_nonempty", 1);
                if prop == "C05" {
                    // canonical: re-encodes to the identical bytes
                    match catch_unwind(AssertUnwindSafe(|| m.encode())) {
                        Ok(Ok(e)) if e == b => {}
                        Ok(Ok(_)) => out.violation(
                            &format!("C05 reencode differs origin={}", origin),
                            &format!("accepted message {} re-encodes to different bytes", short(b)),
                            replay_bytes("decode", b, json!({"origin": origin})),
                        ),
                        _ => {
                            take_panics();
                            out.violation(&format!("C05 reencode fails origin={}", origin), "encode() of an accepted message failed", replay_bytes("decode", b, json!({"origin": origin})))
                        }
                    }
                } else {
                    // C06: values concatenated are exactly the bytes after the header
                    let n = rm.fields.len();
                    let header = 8 * n;
                    let cat: Vec<u8> = m.values().iter().flat_map(|v| v.iter().cloned()).collect();
                    if header > b.len() || cat != b[header..] {
                        out.violation(
                            &format!("C06 values differ-from-input origin={}", origin),
                            &format!("values of accepted message {} are not the input bytes after the header", short(b)),
                            replay_bytes("decode", b, json!({"origin": origin})),
                        );
                    }
                }
            }
            true
        }
        (Err(_), Err(_)) => {
            out.obs("rejected_by_both", 1);
            false
        }
        (Ok(m), Err(e)) => {
            if prop == "C06" && m.num_fields() > 0 && b.len() >= 4 {
                // accepted although the reference refuses it: C06's clause about the values holds
                // for every accepted message, judged against the input's own count word
                let n = u32::from_le_bytes([b[0], b[1], b[2], b[3]]) as usize;
                let header = if n <= 1 { 8 } else { n.saturating_mul(8) };
                let cat: Vec<u8> = m.values().iter().flat_map(|v| v.iter().cloned()).collect();
                out.obs("accepted_only_by_the_implementation", 1);
                if header > b.len() || cat != b[header..] {
                    out.violation(
                        &format!("C06 values differ-from-input origin={}", origin),
                        &format!("values of accepted message {} ({} fields for a count word of {}) are not the input bytes after the header", short(b), m.num_fields(), n),
                        replay_bytes("decode", b, json!({"origin": origin})),
                    );
                }
            }
            if prop == "C05" {
                out.violation(
                    &format!("C05 accepts-what-reference-rejects ref={:?}", e),
                    &format!("from_bytes accepts {} which the reference decoder rejects with {:?}", short(b), e),
                    replay_bytes("decode", b, json!({"origin": origin})),
                );
            }
            true
        }
        (Err(e), Ok(_)) => {
            if prop == "C05" {
                out.violation(
                    &format!("C05 rejects-what-reference-accepts err={}", err_kind(e)),
                    &format!("from_bytes rejects {} with {:?}; the reference decoder accepts it", short(b), e),
                    replay_bytes("decode", b, json!({"origin": origin})),
                );
            }
            false
        }
    }
}

fn err_kind(e: &roughenough::Error) -> String {
    let s = format!("{:?}", e);
    s.split('(').next().unwrap_or("").to_string()
}

pub fn panic_site(p: &str) -> String {
    // "msg @ file:line [thread ..]" -> "file:line"
    let site = p.split(" @ ").nth(1).and_then(|s| s.split(' ').next()).unwrap_or("?");
    // path relative to the repository root, so the signature does not depend on where the tree lives
    match site.find("src/") {
        Some(i) => site[i..].to_string(),
        None => site.to_string(),
    }
}

fn check_display(out: &mut Out, b: &[u8], origin: &str) {
    let Ok(Ok(m)) = catch_unwind(AssertUnwindSafe(|| RtMessage::from_bytes(b))) else {
        take_panics();
        return;
    };
    out.obs("displayed", 1);
    let nested: Vec<String> = m.tags().iter().filter(|t| t.is_nested()).map(|t| t.to_string()).collect();
    let r = catch_unwind(AssertUnwindSafe(|| format!("{}", m)));
    match r {
        Ok(s) => {
            if !nested.is_empty() {
                out.obs("displayed_with_nested", 1);
            }
            if !s.starts_with("RtMessage|") {
                out.violation("C06 display output malformed", "Display output does not start with RtMessage|", replay_bytes("display", b, json!({"origin": origin})));
            }
        }
        Err(_) => {
            let p = take_panics().join(" | ");
            out.violation(
                &format!("C06 display panic {}", panic_site(&p)),
                &format!("Display of a successfully decoded message panicked ({}); nested tags present: {:?}; input {}", p, nested, short(b)),
                replay_bytes("display", b, json!({"origin": origin, "nested": nested})),
            );
        }
    }
}

fn api_roundtrip(out: &mut Out, rng: &mut Rng) {
    let rm = random_valid(rng, 4096, true);
    let mut m = RtMessage::with_capacity(rm.fields.len() as u32);
    for (t, v) in &rm.fields {
        let tag = match tag_of(*t) {
            Some(t) => t,
            None => {
                out.violation(&format!("C05 from_wire rejects known tag {}", tag_name(*t)), "Tag::from_wire rejects a known tag", json!({"kind": "tag", "tag": t}));
                return;
            }
        };
        if m.add_field(tag, v).is_err() {
            out.violation("C05 add_field rejects ascending tag", &format!("add_field rejected tag {} added in ascending wire order", tag_name(*t)), json!({"kind":"api","fields": rm.fields.iter().map(|f| (f.0, hex(&f.1))).collect::<Vec<_>>()}));
            return;
        }
    }
    let desc = json!({"kind":"api","fields": rm.fields.iter().map(|f| (tag_name(f.0), hex(&f.1))).collect::<Vec<_>>()});
    let enc = match m.encode() {
        Ok(e) => e,
        Err(e) => {
            out.violation("C05 api encode fails", &format!("{:?}", e), desc);
            return;
        }
    };
    let refenc = rm.encode();
    out.case(fnv64(&enc), !rm.fields.is_empty());
    out.obs("api_messages", 1);
    out.obs(&format!("api_fields_{:02}", rm.fields.len()), 1);
    if enc != refenc {
        out.violation("C05 api encode differs-from-reference", &format!("encode() gives {} but the reference encoder gives {}", short(&enc), short(&refenc)), desc.clone());
    }
    if enc.len() != m.encoded_size() {
        out.violation("C05 api encoded_size wrong", "encoded_size() differs from the encoding's length", desc.clone());
    }
    match RtMessage::from_bytes(&enc) {
        Ok(d) => {
            if content_of(&d) != rm.fields {
                out.violation("C05 api roundtrip content-differs", "decode(encode(m)) has different tags/values", desc.clone());
            }
            for (t, v) in &rm.fields {
                if d.get_field(tag_of(*t).unwrap()) != Some(v.as_slice()) {
                    out.violation("C05 api get_field differs", "get_field after round trip returns a different value", desc.clone());
                }
            }
        }
        Err(e) => out.violation(&format!("C05 api roundtrip rejects err={}", err_kind(&e)), &format!("decode(encode(m)) failed: {:?}", e), desc.clone()),
    }
    // framing adds exactly the 8-byte magic and the LE payload length
    match m.encode_framed() {
        Ok(f) => {
            let mut exp = b"ROUGHTIM".to_vec();
            exp.extend_from_slice(&(enc.len() as u32).to_le_bytes());
            exp.extend_from_slice(&enc);
            out.obs("framed_checked", 1);
            if f != exp {
                out.violation("C05 framing differs", &format!("encode_framed gives {}", short(&f)), desc.clone());
            }
        }
        Err(e) => out.violation("C05 framing fails", &format!("{:?}", e), desc.clone()),
    }
    if out.samples.len() < 2 {
        if enc.len() <= 200 {
            out.sample(json!({"api_message": desc, "encoded": hex(&enc)}));
        }
    }
}

/// API sequences that include refused calls: add_field with a duplicate or lower tag must
/// return Err and leave the message exactly as it was.
fn api_sequence(out: &mut Out, rng: &mut Rng) {
    let mut model = RefMsg::new();
    let mut m = RtMessage::with_capacity(4);
    let mut log: Vec<String> = Vec::new();
    let nops = rng.range(2, 18);
    // after a clear() the object is sometimes refilled with the tags and value lengths it held
    // before (new contents): an object reused as a template, as the server does with its buffers
    let mut refill: Vec<(u32, usize)> = Vec::new();
    // when the message is observed (encoded / looked up): after every call, after a random third
    // of the calls, or only right before a clear() and at the end of the sequence
    let observe = rng.below(3);
    for op in 0..nops {
        let last = op + 1 == nops;
        if !model.fields.is_empty() && rng.chance(1, 6) && !last {
            if rng.chance(1, 2) {
                refill = model.fields.iter().map(|(t, v)| (*t, v.len())).collect();
                refill.reverse();
            }
            if observe == 2 {
                let ok = matches!(catch_unwind(AssertUnwindSafe(|| m.encode())), Ok(Ok(ref e)) if *e == model.encode());
                log.push("encode()".into());
                if !ok {
                    take_panics();
                    out.violation("C05 api state differs before-clear", &format!("after ops {:?} encode() does not give the model's encoding", log), json!({"kind":"api-sequence","ops":log}));
                    return;
                }
            }
            m.clear();
            model.fields.clear();
            log.push("clear()".into());
            out.obs("api_clears", 1);
            if m.num_fields() != 0 || (observe == 0 && !matches!(catch_unwind(AssertUnwindSafe(|| m.encode())), Ok(Ok(ref e)) if *e == model.encode())) {
                take_panics();
                out.violation("C05 api state differs after-clear", &format!("after ops {:?} the cleared message is not empty / does not encode as the empty message", log), json!({"kind":"api-sequence","ops":log}));
                return;
            }
            continue;
        }
        let (t, v) = match refill.pop() {
            Some((t, l)) => {
                out.obs("api_template_refills", 1);
                (t, rng.bytes(l))
            }
            None => (tag_u32(KNOWN_TAGS[rng.usize_below(18)]), rng.rbytes(0, 4).iter().flat_map(|b| [*b; 4]).collect::<Vec<u8>>()),
        };
        let expect_ok = model.fields.last().map(|(last, _)| t > *last).unwrap_or(true);
        let r = m.add_field(tag_of(t).unwrap(), &v);
        log.push(format!("add_field({}, {} bytes) -> {}", tag_name(t), v.len(), if r.is_ok() { "Ok" } else { "Err" }));
        if expect_ok {
            model.fields.push((t, v));
        }
        out.obs(if expect_ok { "api_adds_expected_ok" } else { "api_adds_expected_refused" }, 1);
        if r.is_ok() != expect_ok {
            out.violation(
                &format!("C05 add_field {} out-of-order-or-duplicate", if r.is_ok() { "accepts" } else { "rejects-ascending" }),
                &format!("after {:?}: add_field({}) returned {}", model.fields.iter().map(|f| tag_name(f.0)).collect::<Vec<_>>(), tag_name(t), if r.is_ok() { "Ok" } else { "Err" }),
                json!({"kind":"api-sequence","ops":log}),
            );
            return;
        }
        // state after the call equals the model
        let look = match observe {
            0 => true,
            1 => last || rng.chance(1, 3),
            _ => last,
        };
        if !look {
            continue;
        }
        log.push("encode()".into());
        out.obs("api_states_observed", 1);
        let enc = catch_unwind(AssertUnwindSafe(|| m.encode()));
        let want = model.encode();
        let framed = catch_unwind(AssertUnwindSafe(|| m.encode_framed()));
        let lookups_ok = KNOWN_TAGS.iter().all(|k| {
            let t = tag_u32(k);
            m.get_field(tag_of(t).unwrap()) == model.fields.iter().find(|f| f.0 == t).map(|f| &f.1[..])
        });
        let state_ok = content_of(&m) == model.fields
            && m.num_fields() as usize == model.fields.len()
            && matches!(&enc, Ok(Ok(e)) if *e == want)
            && matches!(&framed, Ok(Ok(e)) if *e == frame(&want))
            && m.encoded_size() == want.len()
            && lookups_ok;
        if !state_ok {
            take_panics();
            out.violation(
                "C05 api state differs after-refused-or-accepted-add_field",
                &format!("after ops {:?} the message holds tags {:?} / {} values; expected {:?}", log, m.tags().iter().map(|t| t.to_string()).collect::<Vec<_>>(), m.values().len(), model.fields.iter().map(|f| tag_name(f.0)).collect::<Vec<_>>()),
                json!({"kind":"api-sequence","ops":log}),
            );
            return;
        }
    }
    out.case(fnv64(log.join(";").as_bytes()), true);
    out.obs("api_sequences", 1);
}

fn tag_table(out: &mut Out, rng: &mut Rng) {
    // every known tag maps both ways, enum order == numeric wire order
    let mut tags = Vec::new();
    for k in KNOWN_TAGS.iter() {
        match Tag::from_wire(&k[..]) {
            Ok(t) => {
                if t.wire_value() != &k[..] {
                    out.violation(&format!("C05 tag wire_value differs {}", tag_name(tag_u32(k))), "wire_value(from_wire(x)) != x", json!({"kind":"tag"}));
                }
                tags.push((tag_u32(k), t));
            }
            Err(_) => out.violation(&format!("C05 from_wire rejects known tag {}", tag_name(tag_u32(k))), "known tag rejected", json!({"kind":"tag"})),
        }
    }
    for (wa, ta) in &tags {
        for (wb, tb) in &tags {
            out.obs("tag_pairs_compared", 1);
            if (wa < wb) != (ta < tb) {
                out.violation(
                    &format!("C05 tag order enum!=numeric {}/{}", tag_name(*wa), tag_name(*wb)),
                    "enum order of two tags differs from the numeric order of their wire values",
                    json!({"kind":"tag","a":wa,"b":wb}),
                );
            }
        }
    }
    // unknown words are rejected
    for i in 0..20000u32 {
        let w = match i % 4 {
            0 => rng.next_u32(),
            1 => tag_u32(KNOWN_TAGS[rng.usize_below(18)]) ^ (1 << rng.below(32)),
            2 => tag_u32(KNOWN_TAGS[rng.usize_below(18)]).swap_bytes(),
            _ => i,
        };
        if !is_known(w) && Tag::from_wire(&w.to_le_bytes()).is_ok() {
            out.violation("C05 from_wire accepts unknown tag", &format!("word {:08x} accepted as a tag", w), json!({"kind":"tag","word":w}));
        }
        out.obs("unknown_words_probed", 1);
    }
}

fn nontrivial_bytes(b: &[u8]) -> bool {
    b.len() >= 8 && b.len() % 4 == 0 && u32::from_le_bytes([b[0], b[1], b[2], b[3]]) >= 1
}

pub fn run(ctx: &Ctx, out: &mut Out, prop: &str) {
    if ctx.replay.is_none() {
        // neither the log level in force nor the identity of the calling thread may matter to the
        // codec: shards cycle through the levels (records are formatted like a real logger would),
        // and odd shards run on an unnamed thread
        let (lvl, name) = [(log::LevelFilter::Off, "Off"), (log::LevelFilter::Trace, "Trace"), (log::LevelFilter::Debug, "Debug"), (log::LevelFilter::Info, "Info")][(ctx.shard % 4) as usize];
        crate::inproc::install_logger(lvl, false);
        out.obs(&format!("shards_at_log_level_{}", name), 1);
        if ctx.shard % 2 == 1 {
            out.obs("shards_on_unnamed_thread", 1);
            std::thread::scope(|s| {
                let h = std::thread::Builder::new().stack_size(16 << 20).spawn_scoped(s, || run_inner(ctx, out, prop)).expect("spawn");
                let _ = h.join();
            });
            return;
        }
    }
    run_inner(ctx, out, prop)
}

fn run_inner(ctx: &Ctx, out: &mut Out, prop: &str) {
    if let Some(r) = &ctx.replay {
        if r["kind"] == "nestprobe" {
            let exe = std::env::current_exe().unwrap();
            let o = std::process::Command::new(exe).args(["nestprobe", &r["depth"].to_string(), r["place"].as_str().unwrap_or("main"), &r["shape"].as_u64().unwrap_or(0).to_string()]).output().unwrap();
            out.case(1, true);
            out.case(2, true);
            if !o.status.success() {
                out.violation(&format!("C06 display deep-nesting abnormal-exit place={}", r["place"].as_str().unwrap_or("")), &format!("{:?}", o.status), r.clone());
            }
            return;
        }
        let b = crate::prng::unhex(r["bytes_hex"].as_str().unwrap_or("")).unwrap_or_default();
        out.case(fnv64(&b), true);
        out.case(!fnv64(&b), true);
        check_decode(out, prop, &b, "replay");
        if prop == "C06" {
            check_display(out, &b, "replay");
        }
        return;
    }
    let mut rng = ctx.rng(prop);
    let c06 = prop == "C06";

    // (1) API-built messages (C05) / table
    if !c06 {
        if ctx.shard == 0 {
            tag_table(out, &mut rng);
        }
        for _ in 0..ctx.share(100_000, 800_000) {
            api_roundtrip(out, &mut rng);
        }
        for _ in 0..ctx.share(100_000, 800_000) {
            api_sequence(out, &mut rng);
        }
    }

    // (2) bounded-exhaustive word strings
    let alpha = alphabet(ctx.thorough);
    let maxlen = if ctx.thorough { 7 } else { 6 };
    let total = enum_total(alpha.len() as u64, maxlen);
    let mut i = ctx.shard;
    let mut done_all = true;
    while i < total {
        let w = enum_nth(&alpha, maxlen, i);
        let b = words_to_bytes(&w);
        out.case(fnv64(&b), nontrivial_bytes(&b));
        out.obs("exhaustive_strings", 1);
        let acc = check_decode(out, prop, &b, "exhaustive");
        if c06 && acc {
            check_display(out, &b, "exhaustive");
        }
        if acc && out.samples.len() < 4 && w.len() >= 4 {
            out.sample(json!({"exhaustive_words": w.iter().map(|x| format!("{:08x}", x)).collect::<Vec<_>>(), "accepted": true}));
        }
        i += ctx.nshards;
        if i % 4096 < ctx.nshards && !ctx.time_left() {
            done_all = false;
            break;
        }
    }
    out.exhaustive = Some(done_all);
    out.extra.insert("exhaustive_scope".into(), json!({"alphabet": alpha.iter().map(|x| format!("{:08x}", x)).collect::<Vec<_>>(), "max_words": maxlen, "total_strings": total, "completed": done_all}));

    // (3) structured mutants of valid encodings up to 64 KiB
    let nm = ctx.share(if c06 { 800_000 } else { 800_000 }, 6_000_000);
    for k in 0..nm {
        let big = k % 16 == 0;
        let rm = random_valid(&mut rng, if big { 60_000 } else { 256 }, true);
        let valid = rm.encode();
        if valid.len() > 65_536 - 64 {
            continue;
        }
        let m = if k % 5 == 0 { Mutant { bytes: valid.clone(), op: "none" } } else { mutate(&mut rng, &valid, rm.fields.len()) };
        out.case(fnv64(&m.bytes), nontrivial_bytes(&m.bytes));
        out.obs(&format!("mutant_{}", m.op), 1);
        out.obs_max("input_len", m.bytes.len() as i64);
        let acc = check_decode(out, prop, &m.bytes, m.op);
        if c06 && acc {
            check_display(out, &m.bytes, m.op);
        }
        if out.samples.len() < 6 && m.op != "none" && m.bytes.len() < 80 {
            out.sample(json!({"mutant_op": m.op, "bytes": hex(&m.bytes), "accepted": acc}));
        }
        if k % 1024 == 0 && !ctx.time_left() {
            out.note("mutant loop cut by wall budget");
            break;
        }
    }

    // (3a) valid encodings at and around 64 KiB (and a few far beyond): accepted, canonical
    for k in 0..ctx.share(64, 640) {
        let total = *rng.pick(&[65_528usize, 65_532, 65_536, 65_536, 65_540, 65_544, 131_072, 1 << 20]);
        let nf = if k % 3 == 0 { 1 } else { rng.range(2, 18) as usize };
        let hdr = if nf == 1 { 8 } else { 8 * nf };
        let mut idx: Vec<usize> = (0..18).collect();
        rng.shuffle(&mut idx);
        let mut chosen: Vec<usize> = idx.into_iter().take(nf).collect();
        chosen.sort();
        // split the value area into nf aligned parts
        let words = (total - hdr) / 4;
        let mut cuts: Vec<usize> = (0..nf - 1).map(|_| rng.usize_below(words + 1)).collect();
        cuts.sort();
        cuts.push(words);
        let mut rm = RefMsg::new();
        let mut prev = 0;
        for (i, c) in chosen.iter().enumerate() {
            let l = (cuts[i] - prev) * 4;
            prev = cuts[i];
            rm.set(tag_u32(KNOWN_TAGS[*c]), &rng.bytes(l));
        }
        let b = rm.encode();
        out.case(fnv64(&b), true);
        out.obs(&format!("large_valid_len_{}", b.len()), 1);
        out.obs_max("input_len", b.len() as i64);
        let acc = check_decode(out, prop, &b, "large-valid");
        if !acc {
            out.obs("large_valid_refused", 1);
        }
    }

    // (3b) inputs that still carry RFC framing ("ROUGHTIM" + length): from_bytes takes the
    // message with framing removed, so these are just byte strings to be judged like any other
    for k in 0..ctx.share(60_000, 600_000) {
        let rm = random_valid(&mut rng, 64, true);
        let mut b = frame(&rm.encode());
        match k % 4 {
            0 => b.truncate(rng.usize_below(24.min(b.len() + 1))),
            1 => {
                let l = rng.usize_below(b.len() + 1);
                b.truncate(l)
            }
            2 => {
                let i = 8 + rng.usize_below(4);
                b[i] ^= 1 << rng.below(8);
            }
            _ => {}
        }
        out.case(fnv64(&b), b.len() >= 8);
        out.obs("framed_inputs", 1);
        let acc = check_decode(out, prop, &b, "framed-input");
        if c06 && acc {
            check_display(out, &b, "framed-input");
        }
    }

    // (4) C06: random strings of every length class, and nested-garbage carriers
    if c06 {
        for k in 0..ctx.share(400_000, 3_000_000) {
            let b = random_bytes(&mut rng);
            out.case(fnv64(&b), nontrivial_bytes(&b));
            out.obs("random_strings", 1);
            out.obs_max("input_len", b.len() as i64);
            let acc = check_decode(out, prop, &b, "random");
            if acc {
                check_display(out, &b, "random");
            }
            if k % 1024 == 0 && !ctx.time_left() {
                break;
            }
        }
        // messages whose nested tags carry arbitrary bytes
        for k in 0..ctx.share(200_000, 1_600_000) {
            let mut rm = RefMsg::new();
            for t in [CERT, DELE, SREP] {
                if rng.chance(2, 3) {
                    let v = match rng.below(5) {
                        0 => vec![],
                        1 => rng.bytes(4),
                        2 => {
                            let l = rng.below(32) as usize * 4;
                            rng.bytes(l)
                        }
                        3 => {
                            let inner = random_valid(&mut rng, 32, true);
                            let e = inner.encode();
                            mutate(&mut rng, &e, inner.fields.len()).bytes
                        }
                        _ => {
                            // nested two levels deep, innermost garbage
                            let mut inner = RefMsg::new();
                            let l = rng.below(6) as usize * 4;
                            inner.set(DELE, &rng.bytes(l));
                            inner.set(SIG, &rng.bytes(8));
                            inner.encode()
                        }
                    };
                    // values must be aligned for the outer message to decode
                    let mut v = v;
                    v.truncate(v.len() / 4 * 4);
                    rm.set(t, &v);
                }
            }
            if rng.chance(1, 2) {
                rm.set(NONC, &rng.bytes(8));
            }
            let b = rm.encode();
            out.case(fnv64(&b), !rm.fields.is_empty());
            out.obs("nested_carriers", 1);
            let acc = check_decode(out, prop, &b, "nested-carrier");
            if acc {
                check_display(out, &b, "nested-carrier");
            }
            if k % 1024 == 0 && !ctx.time_left() {
                break;
            }
        }
        // moderately deep nesting (1..=24 levels) of well-formed messages, in process
        for k in 0..ctx.share(2_000, 40_000) {
            let depth = 1 + (k % 24) as usize;
            let mut inner = random_valid(&mut rng, 16, false);
            if inner.fields.is_empty() {
                inner.set(NONC, &[0; 4]);
            }
            let mut b = inner.encode();
            for d in 0..depth {
                let mut m = RefMsg::new();
                m.set([CERT, DELE, SREP][(d + k as usize) % 3], &b);
                if rng.chance(1, 3) {
                    m.set(SIG, &rng.bytes(8));
                }
                b = m.encode();
            }
            out.case(fnv64(&b), true);
            out.obs("nested_chains", 1);
            out.obs_max("nested_chain_depth", depth as i64);
            if check_decode(out, prop, &b, "nested-chain") {
                check_display(out, &b, "nested-chain");
            }
        }
        // deep nesting inside the 64 KiB bound: run in a child process, because running out
        // of stack is a fatal signal, not an unwind
        if ctx.shard == 0 {
            let mut kids = Vec::new();
            // shape 0 cycles CERT/DELE/SREP; shapes 1..=9 are "outer tag a, then only tag b" for
            // every ordered pair (a, b), including the single-tag chains
            let mut plan: Vec<(usize, &str, usize)> = Vec::new();
            for depth in [1usize, 10, 100, 1000, 2000, 8000] {
                for place in ["main", "thread"] {
                    plan.push((depth, place, 0));
                }
            }
            for shape in 1..=9usize {
                plan.push((8000, "thread", shape));
                plan.push((12, "main", shape));
            }
            for (depth, place, shape) in plan {
                {
                    let exe = std::env::current_exe().unwrap();
                    let c = std::process::Command::new(exe)
                        .args(["nestprobe", &depth.to_string(), place, &shape.to_string()])
                        .stdout(std::process::Stdio::null())
                        .stderr(std::process::Stdio::piped())
                        .spawn();
                    out.case(fnv64(format!("nest{}{}{}", depth, place, shape).as_bytes()), true);
                    match c {
                        Ok(c) => kids.push((depth, place, shape, c)),
                        Err(e) => out.inconclusive(&format!("nestprobe spawn failed: {}", e)),
                    }
                }
            }
            let t0 = std::time::Instant::now();
            for (depth, place, shape, mut c) in kids {
                let status = loop {
                    match c.try_wait() {
                        Ok(Some(st)) => break Some(st),
                        Ok(None) if t0.elapsed().as_secs() < 25 => std::thread::sleep(std::time::Duration::from_millis(20)),
                        _ => {
                            let _ = c.kill();
                            let _ = c.wait();
                            break None;
                        }
                    }
                };
                match status {
                    Some(st) if st.success() => out.obs("deep_nesting_probes_ok", 1),
                    Some(st) => {
                        let mut err = String::new();
                        if let Some(mut e) = c.stderr.take() {
                            use std::io::Read;
                            let _ = e.read_to_string(&mut err);
                        }
                        out.violation(
                            &format!("C06 display deep-nesting abnormal-exit place={}{}", place, if shape == 0 { String::new() } else { format!(" shape={}", shape_name(shape)) }),
                            &format!("decoding+formatting a {}-level nested message (<= 64 KiB, shape {}) ended with {:?}: {}", depth, shape_name(shape), st, err.chars().take(300).collect::<String>()),
                            json!({"kind": "nestprobe", "depth": depth, "place": place, "shape": shape}),
                        )
                    }
                    None => {
                        out.obs("deep_nesting_probes_timeout", 1);
                        out.note(&format!("nestprobe depth={} place={} shape={} still formatting after 25 s (slow, not a verdict)", depth, place, shape));
                    }
                }
            }
        }
        out.floor("displayed_with_nested", 1000);
        out.floor("random_strings", 10_000);
    } else {
        out.floor("api_messages", 5_000);
        out.floor("api_adds_expected_refused", 10_000);
        out.floor("framed_checked", 5_000);
        out.floor("tag_pairs_compared", 324);
    }
    out.floor("exhaustive_strings", 100_000);
    out.floor("accepted_nonempty", 5_000);
    out.floor("rejected_by_both", 5_000);
}


/// child-process probe: decode and format a message nested `depth` levels deep
pub fn shape_name(shape: usize) -> String {
    const N: [&str; 3] = ["CERT", "DELE", "SREP"];
    if shape == 0 {
        "cycle".into()
    } else {
        format!("{}>{}*", N[(shape - 1) / 3], N[(shape - 1) % 3])
    }
}

pub fn nestprobe(depth: usize, place: &str, shape: usize) {
    const T: [u32; 3] = [CERT, DELE, SREP];
    let mut inner = RefMsg::new();
    inner.set(NONC, &[1, 2, 3, 4]);
    let mut b = inner.encode();
    // built inside-out: the last wrap is the outermost tag
    let mut levels = 0;
    while levels < depth && b.len() + 16 <= 65_536 {
        levels += 1;
    }
    for i in 0..levels {
        let outermost = i + 1 == levels;
        let tag = if shape == 0 { T[i % 3] } else if outermost { T[(shape - 1) / 3] } else { T[(shape - 1) % 3] };
        if b.len() + 8 > 65_536 {
            break;
        }
        let mut m = RefMsg::new();
        m.set(tag, &b);
        b = m.encode();
    }
    let work = move || {
        let m = RtMessage::from_bytes(&b).expect("nested message decodes");
        let s = format!("{}", m);
        assert!(s.starts_with("RtMessage|"));
        println!("ok {} bytes in, {} chars out", b.len(), s.len());
    };
    if place == "thread" {
        std::thread::spawn(work).join().expect("thread");
    } else {
        work();
    }
}
