//! Reference responder: an honest Roughtime server holding its own keys, built only on
//! the reference codec / hashing / signing. Its output is kept in parts so that forgery
//! operators (C01) can change one component and re-assemble.

use super::codec::*;
use super::crypto::*;
use crate::prng::Rng;

#[derive(Debug, Clone)]
pub struct RespParts {
    pub proto: Proto,
    pub sig: Vec<u8>,
    pub nonce: Option<Vec<u8>>,
    pub path: Vec<u8>,
    pub srep: RefMsg,
    /// if set, used verbatim instead of srep.encode()
    pub srep_raw: Option<Vec<u8>>,
    pub cert_sig: Vec<u8>,
    pub dele: RefMsg,
    pub indx: u32,
}

impl RespParts {
    pub fn srep_bytes(&self) -> Vec<u8> {
        self.srep_raw.clone().unwrap_or_else(|| self.srep.encode())
    }
    pub fn payload(&self) -> Vec<u8> {
        let mut cert = RefMsg::new();
        cert.set(SIG, &self.cert_sig);
        cert.set(DELE, &self.dele.encode());
        let mut m = RefMsg::new();
        m.set(SIG, &self.sig);
        if let Some(n) = &self.nonce {
            m.set(NONC, n);
        }
        m.set(PATH, &self.path);
        m.set(SREP, &self.srep_bytes());
        m.set(CERT, &cert.encode());
        m.set(INDX, &self.indx.to_le_bytes());
        m.encode()
    }
    pub fn assemble(&self) -> Vec<u8> {
        match self.proto {
            Proto::Classic => self.payload(),
            Proto::Ietf => frame(&self.payload()),
        }
    }
    pub fn resign_srep(&mut self, online: &RefKey) {
        let mut m = self.proto.srep_ctx().to_vec();
        m.extend_from_slice(&self.srep_bytes());
        self.sig = online.sign(&m);
    }
    pub fn resign_dele(&mut self, lt: &RefKey, ctx_of: Proto) {
        let mut m = ctx_of.dele_ctx().to_vec();
        m.extend_from_slice(&self.dele.encode());
        self.cert_sig = lt.sign(&m);
    }
}

#[derive(Debug, Clone)]
pub struct Batch {
    /// number of leaves in the signed batch (1..)
    pub size: usize,
    /// position of the client's request
    pub index: usize,
    pub midp: u64,
    pub radi: u32,
    pub mint: u64,
    pub maxt: u64,
}

pub struct RefServer {
    pub lt_seed: Vec<u8>,
    pub online_seed: Vec<u8>,
}

impl RefServer {
    pub fn new(rng: &mut Rng) -> RefServer {
        RefServer { lt_seed: rng.bytes(32), online_seed: rng.bytes(32) }
    }
    pub fn lt(&self) -> RefKey {
        RefKey::from_seed(&self.lt_seed)
    }
    pub fn online(&self) -> RefKey {
        RefKey::from_seed(&self.online_seed)
    }
    pub fn public(&self) -> Vec<u8> {
        self.lt().public()
    }

    /// Honest response to `leaf_input` (classic: the nonce; IETF: the request packet).
    pub fn respond(&self, proto: Proto, leaf_input: &[u8], nonce: &[u8], b: &Batch, rng: &mut Rng, echo_nonce: bool) -> RespParts {
        assert!(b.index < b.size);
        let w = proto.width();
        let mut leaves: Vec<Vec<u8>> = Vec::with_capacity(b.size);
        for i in 0..b.size {
            if i == b.index {
                leaves.push(hash_leaf(proto, leaf_input));
            } else {
                let decoy = rng.bytes(proto.nonce_len());
                leaves.push(hash_leaf(proto, &decoy));
            }
        }
        let mut fr = Rng::new(rng.next_u64());
        let (root, paths) = build_tree(proto, &leaves, &mut |_| fr.bytes(w));
        let mut srep = RefMsg::new();
        if proto == Proto::Ietf {
            srep.set(VER, &DRAFT13.to_le_bytes());
            srep.set(VERS, &[0u32.to_le_bytes(), DRAFT13.to_le_bytes()].concat());
        }
        srep.set(RADI, &b.radi.to_le_bytes());
        srep.set(MIDP, &b.midp.to_le_bytes());
        srep.set(ROOT, &root);
        let online = self.online();
        let mut dele = RefMsg::new();
        dele.set(PUBK, &online.public());
        dele.set(MINT, &b.mint.to_le_bytes());
        dele.set(MAXT, &b.maxt.to_le_bytes());
        let mut parts = RespParts {
            proto,
            sig: vec![],
            nonce: if echo_nonce { Some(nonce.to_vec()) } else { None },
            path: paths[b.index].clone(),
            srep,
            srep_raw: None,
            cert_sig: vec![],
            dele,
            indx: b.index as u32,
        };
        parts.resign_srep(&online);
        parts.resign_dele(&self.lt(), proto);
        parts
    }
}

pub fn self_test() -> Result<(), String> {
    use super::req;
    use super::verify::{verify_response, Opts, ReqView};
    let mut rng = Rng::new(7);
    let srv = RefServer::new(&mut rng);
    for proto in [Proto::Classic, Proto::Ietf] {
        for (size, index) in [(1usize, 0usize), (2, 1), (5, 3), (64, 63)] {
            let nonce = rng.bytes(proto.nonce_len());
            let pkt = match proto {
                Proto::Classic => req::classic_request(&nonce, 1024),
                Proto::Ietf => req::ietf_request(&[DRAFT13], None, &nonce, 1024),
            };
            if pkt.len() != 1024 {
                return Err(format!("refreq size {}", pkt.len()));
            }
            let info = req::parse_request(&pkt).ok_or("refreq output not well-formed")?;
            if info.nonce != nonce || info.proto != proto {
                return Err("refreq parse mismatch".into());
            }
            let view = ReqView { proto, packet: &pkt, nonce: nonce.clone() };
            let b = Batch { size, index, midp: 1_700_000_000, radi: 5, mint: 0, maxt: u64::MAX };
            let parts = srv.respond(proto, view.leaf_input(), &nonce, &b, &mut rng, true);
            let resp = parts.assemble();
            verify_response(&view, &resp, &srv.public(), Opts { strict: true })
                .map_err(|e| format!("honest reference response rejected by reference verifier: {}", e))?;
            // and a forged one must be rejected
            let mut bad = parts.clone();
            bad.sig[5] ^= 1;
            if verify_response(&view, &bad.assemble(), &srv.public(), Opts { strict: false }).is_ok() {
                return Err("reference verifier accepted a corrupted SIG".into());
            }
            let mut bad = parts.clone();
            if !bad.path.is_empty() {
                bad.path[0] ^= 1;
                if verify_response(&view, &bad.assemble(), &srv.public(), Opts { strict: false }).is_ok() {
                    return Err("reference verifier accepted a corrupted PATH".into());
                }
            }
            let other = RefServer::new(&mut rng);
            if verify_response(&view, &resp, &other.public(), Opts { strict: false }).is_ok() {
                return Err("reference verifier accepted under a different key".into());
            }
        }
    }
    Ok(())
}
