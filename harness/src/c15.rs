//! C15 — every documented in-range configuration yields a fully serving server.
//! Starts the real server binary per configuration and observes it from outside:
//! /proc thread names, probe replies (distinct per-worker certificates), TCP health replies,
//! stderr, liveness.

use std::io::{Read, Write};
use std::net::{TcpStream, UdpSocket};
use std::time::{Duration, Instant};

use serde_json::json;

use crate::out::{Ctx, Out};
use crate::procs::*;
use crate::prng::{fnv64, Rng};
use crate::refimpl::crypto::{Proto, RefKey};

const HTTP_PREFIX: &str = "HTTP/1.1 200";

pub fn health_once(port: u16, limit: Duration) -> Result<String, String> {
    let addr = srv_addr(port);
    let s = TcpStream::connect_timeout(&addr, limit).map_err(|e| format!("connect: {}", e))?;
    health_finish(s, limit)
}

/// the rest of a health check on a connection that is already established
pub fn health_finish(mut s: TcpStream, limit: Duration) -> Result<String, String> {
    s.set_read_timeout(Some(limit)).unwrap();
    // every other check is a bare connect-and-read (what a TCP load-balancer probe does): the
    // server, with nothing unread on the connection, then closes with FIN and keeps the
    // connection in TIME_WAIT on its port; the others send an HTTP request first
    static CALLS: std::sync::atomic::AtomicU64 = std::sync::atomic::AtomicU64::new(0);
    if CALLS.fetch_add(1, std::sync::atomic::Ordering::Relaxed) % 2 == 0 {
        let _ = s.write_all(b"GET / HTTP/1.0\r\n\r\n");
    }
    let mut buf = Vec::new();
    let mut tmp = [0u8; 512];
    let t0 = Instant::now();
    loop {
        match s.read(&mut tmp) {
            Ok(0) => break,
            Ok(n) => {
                buf.extend_from_slice(&tmp[..n]);
                if buf.windows(2).any(|w| w == b"\n\n") {
                    break;
                }
            }
            Err(e) => {
                if !buf.is_empty() {
                    break;
                }
                // Silence for `limit`. On a loaded machine that proves nothing: the connection
                // stays open while the harness's load generators pause; it counts as unanswered
                // only once the server has settled (all threads blocked, receive queue unchanged)
                // with still nothing on it. "LATE" / "BUSY" are inconclusive outcomes.
                let Some((pid, uport)) = current_server() else {
                    return Err(format!("no reply within {:?}: {}", limit, e.kind()));
                };
                JUDGING.fetch_add(1, std::sync::atomic::Ordering::SeqCst);
                let _ = s.set_read_timeout(Some(Duration::from_millis(50)));
                let t1 = Instant::now();
                let mut streak = 0;
                let verdict = loop {
                    if let Ok(n) = s.read(&mut tmp) {
                        if n > 0 {
                            break Err(format!("LATE: answered only {:?} after connecting", t0.elapsed()));
                        }
                        break Err("connection closed without a reply".to_string());
                    }
                    if pid_quiescent(pid, uport, Duration::from_millis(150)) {
                        streak += 1;
                        if streak >= 3 {
                            break Err(format!("no reply within {:?} and the server has settled without answering", limit));
                        }
                    } else {
                        streak = 0;
                    }
                    if t1.elapsed() > Duration::from_secs(30) {
                        break Err("BUSY: no reply, and the server never settled within 30 s".to_string());
                    }
                };
                JUDGING.fetch_sub(1, std::sync::atomic::Ordering::SeqCst);
                return verdict;
            }
        }
        if t0.elapsed() > limit {
            break;
        }
    }
    Ok(String::from_utf8_lossy(&buf).to_string())
}

pub struct Observed {
    pub workers_seen: usize,
    pub probes_ok: usize,
}

/// Observe one running configuration. Returns violations as (signature, reason).
pub fn observe(out: &mut Out, sp: &mut ServerProc, pk: &[u8], nworkers: usize, rng: &mut Rng, window: Duration) -> Vec<(String, String)> {
    let mut v: Vec<(String, String)> = Vec::new();
    set_current_server(Some((sp.pid(), sp.cfg.port)));
    let t0 = Instant::now();
    let drops0 = crate::inproc::udp_drops(sp.cfg.port).unwrap_or(0);
    // light traffic for the whole observation window, from fresh source ports: "stays alive and
    // answers requests" is judged over the window, not at two instants
    let bg_stop = std::sync::Arc::new(std::sync::atomic::AtomicBool::new(false));
    // the prober falls silent while the frozen burst is judged: only then does a request that
    // waits for "some later datagram" stay visibly unanswered
    let bg_pause = std::sync::Arc::new(std::sync::atomic::AtomicBool::new(false));
    let bg = {
        let (stop, pause, pkc, port, s0) = (bg_stop.clone(), bg_pause.clone(), pk.to_vec(), sp.cfg.port, rng.next_u64());
        std::thread::spawn(move || {
            let mut r = Rng::new(s0);
            let (mut ok, mut unanswered, mut invalid) = (0u32, 0u32, 0u32);
            let mut first_fail: Option<String> = None;
            while !stop.load(std::sync::atomic::Ordering::Relaxed) {
                if pause.load(std::sync::atomic::Ordering::Relaxed) {
                    std::thread::sleep(Duration::from_millis(5));
                    continue;
                }
                yield_to_judges();
                let proto = if r.chance(1, 3) { Proto::Ietf } else { Proto::Classic };
                match probe(port, &pkc, proto, &mut r, Duration::from_millis(800)) {
                    Ok(_) => ok += 1,
                    Err(e) if e.starts_with("reply does not verify") => {
                        invalid += 1;
                        first_fail.get_or_insert(e);
                    }
                    Err(e) => {
                        unanswered += 1;
                        first_fail.get_or_insert(e);
                    }
                }
                std::thread::sleep(Duration::from_millis(12));
            }
            (ok, unanswered, invalid, first_fail)
        })
    };
    // probes from distinct source ports: every worker must answer, every reply must verify
    let mut keys = std::collections::HashSet::new();
    let mut ok = 0;
    let nprobes = 256 * nworkers.min(16);
    let mut fails = 0;
    for k in 0..nprobes {
        let proto = if k % 4 == 3 { Proto::Ietf } else { Proto::Classic };
        match probe(sp.cfg.port, pk, proto, rng, Duration::from_millis(800)) {
            Ok(ver) => {
                ok += 1;
                if proto == Proto::Classic {
                    keys.insert(ver.online_pk);
                }
            }
            Err(e) => {
                fails += 1;
                if e.starts_with("reply does not verify") && sp.cfg.fault_percentage.unwrap_or(0) == 0 {
                    v.push(("C15 probe reply-invalid".into(), e));
                    break;
                }
                if fails > 20 && sp.cfg.fault_percentage.unwrap_or(0) == 0 {
                    break;
                }
            }
        }
        if keys.len() >= nworkers && k >= 64 {
            break;
        }
    }
    out.obs("probes_answered", ok as i64);
    out.obs_max("workers_answering", keys.len() as i64);
    if keys.len() < nworkers && sp.exited().is_none() {
        v.push((
            format!("C15 start workers-not-serving workers={} health={}", if nworkers > 1 { ">1" } else { "1" }, sp.cfg.health_check_port.is_some()),
            format!("{} workers configured but replies came from only {} distinct per-worker delegated keys over {} answered probes ({} unanswered)", nworkers, keys.len(), ok, fails),
        ));
    }
    // health check: sequential, then bursts of 1..20 concurrent, while UDP keeps being answered
    if let Some(hp) = sp.cfg.health_check_port {
        for _ in 0..5 {
            out.obs("health_connections", 1);
            match health_once(hp, Duration::from_secs(3)) {
                Ok(r) if r.starts_with(HTTP_PREFIX) => out.obs("health_replies_ok", 1),
                Ok(r) => v.push(("C15 health wrong-reply".into(), format!("health check answered {:?}", r))),
                Err(e) if e.starts_with("LATE") || e.starts_with("BUSY") => out.inconclusive("health check answered late / server never settled (loaded machine)"),
                Err(e) => v.push(("C15 health sequential unanswered".into(), e)),
            }
        }
        for burst in [2usize, 5, 20, rng.range(1, 20) as usize] {
            let hs: Vec<_> = (0..burst).map(|_| std::thread::spawn(move || health_once(hp, Duration::from_secs(3)))).collect();
            // time service continues during the burst
            let udp = probe(sp.cfg.port, pk, Proto::Classic, rng, Duration::from_millis(1500));
            let mut bad = 0;
            let mut why = String::new();
            for h in hs {
                out.obs("health_connections", 1);
                match h.join().unwrap() {
                    Ok(r) if r.starts_with(HTTP_PREFIX) => out.obs("health_replies_ok", 1),
                    Ok(r) => {
                        bad += 1;
                        why = format!("answered {:?}", r);
                    }
                    Err(e) if e.starts_with("LATE") || e.starts_with("BUSY") => out.inconclusive("health check answered late / server never settled (loaded machine)"),
                    Err(e) => {
                        bad += 1;
                        why = e;
                    }
                }
            }
            out.obs("health_bursts", 1);
            if bad > 0 {
                v.push(("C15 health burst stranded".into(), format!("{} of {} concurrent health-check connections not answered with HTTP 200 within 3 s: {}", bad, burst, why)));
                break;
            }
            if udp.is_err() && sp.cfg.fault_percentage.unwrap_or(0) == 0 {
                v.push(("C15 health time-service-interrupted".into(), format!("UDP probe during a health-check burst: {:?}", udp.err())));
            }
        }
    }
    // a burst that arrives while the process is descheduled, together with health connections:
    // everything queued behind one wake-up must still be served
    if let Some(hp) = sp.cfg.health_check_port {
        let addr: std::net::SocketAddr = srv_addr(sp.cfg.port);
        let burst_sock = UdpSocket::bind(local_any(sp.cfg.port)).unwrap();
        bg_pause.store(true, std::sync::atomic::Ordering::Relaxed);
        std::thread::sleep(Duration::from_millis(40));
        sp.signal(libc::SIGSTOP);
        std::thread::sleep(Duration::from_millis(5));
        let mut pending = Vec::new();
        // sometimes preceded by one whole batch of datagrams the server must drop
        let bs = sp.cfg.batch_size.unwrap_or(64) as usize;
        let junk = if bs <= 2 || sp.cfg.port % 3 == 0 { bs } else { 0 };
        for _ in 0..junk {
            let _ = burst_sock.send_to(&rng.rbytes(1, 24), addr);
        }
        if junk > 0 {
            out.obs("frozen_bursts_with_junk_prefix", 1);
        }
        let nvalid = if junk >= 32 { 50 } else { 70 };
        // minimum-size requests: more than one call may answer at batch_size 1, yet well inside
        // the server socket's default receive buffer together with the background probes
        for j in 0..nvalid {
            let proto = if j % 2 == 0 { Proto::Classic } else { Proto::Ietf };
            let nonce = rng.bytes(proto.nonce_len());
            let pkt = match proto {
                Proto::Classic => crate::refimpl::req::classic_request(&nonce, 1024),
                Proto::Ietf => crate::refimpl::req::ietf_request(&[crate::refimpl::crypto::DRAFT13], None, &nonce, 1024),
            };
            let _ = burst_sock.send_to(&pkt, addr);
            pending.push((pkt, nonce, if j % 2 == 0 { Proto::Classic } else { Proto::Ietf }));
        }
        // usually a handful; for one- and two-worker servers every other time far more than any
        // per-wake-up quota a worker may have (all pending on one readiness event)
        let nconn = if nworkers <= 2 && sp.cfg.port % 2 == 0 { 150 * nworkers } else { (2 * nworkers).clamp(2, 12) };
        if nconn >= 150 {
            out.obs("frozen_bursts_with_150_or_more_pending_health_connections", 1);
        }
        // first in the accept queue: connections that the client resets before they are accepted
        // (writing the reply to them fails); the well-behaved ones queue up behind them
        for _ in 0..nworkers.min(4) {
            if let Ok(s) = TcpStream::connect_timeout(&srv_addr(hp), Duration::from_millis(300)) {
                let lin = libc::linger { l_onoff: 1, l_linger: 0 };
                unsafe {
                    libc::setsockopt(std::os::unix::io::AsRawFd::as_raw_fd(&s), libc::SOL_SOCKET, libc::SO_LINGER, &lin as *const libc::linger as *const libc::c_void, std::mem::size_of::<libc::linger>() as u32);
                }
                drop(s); // RST
                out.obs("reset_connections_queued", 1);
            }
        }
        // all connections are established (they sit in the listen backlog) before the process is
        // allowed to run again: one readiness event for all of them
        let conns: Vec<_> = (0..nconn).map(|_| TcpStream::connect_timeout(&srv_addr(hp), Duration::from_secs(2))).collect();
        std::thread::sleep(Duration::from_millis(30));
        sp.signal(libc::SIGCONT);
        let hs: Vec<_> = conns
            .into_iter()
            .map(|c| {
                std::thread::spawn(move || match c {
                    Ok(s) => health_finish(s, Duration::from_secs(4)),
                    Err(e) => Err(format!("connect: {}", e)),
                })
            })
            .collect();
        let mut bad = 0;
        let mut why = String::new();
        for h in hs {
            out.obs("health_connections", 1);
            match h.join().unwrap() {
                Ok(r) if r.starts_with(HTTP_PREFIX) => out.obs("health_replies_ok", 1),
                Ok(r) => {
                    bad += 1;
                    why = format!("answered {:?}", r);
                }
                Err(e) if e.starts_with("LATE") || e.starts_with("BUSY") => out.inconclusive("health check answered late / server never settled (loaded machine)"),
                Err(e) => {
                    bad += 1;
                    why = e;
                }
            }
        }
        out.obs("frozen_burst_with_health_phases", 1);
        if bad > 0 {
            v.push(("C15 health unanswered-after-burst-wakeup".into(), format!("{} of {} health-check connections that arrived together with a burst of 70 requests (process stopped meanwhile) were not answered with HTTP 200 within 4 s: {}", bad, nconn, why)));
        }
        burst_sock.set_read_timeout(Some(Duration::from_millis(400))).unwrap();
        let mut buf = vec![0u8; 4096];
        let mut answered = 0;
        // silence alone proves nothing on a loaded machine: requests count as unanswered once the
        // server has settled (all threads blocked, receive queue unchanged) without answering them
        let (t_burst, mut quiet_streak, mut busy) = (Instant::now(), 0, false);
        while answered < nvalid {
            match burst_sock.recv_from(&mut buf) {
                Ok(_) => {
                    answered += 1;
                    if quiet_streak >= 2 {
                        burst_sock.set_read_timeout(Some(Duration::from_millis(400))).unwrap();
                    }
                    quiet_streak = 0;
                }
                Err(_) => {
                    if quiet_streak >= 2 {
                        break;
                    }
                    if sp.exited().is_some() || sp.quiescent(Duration::from_millis(150)) {
                        quiet_streak += 1;
                        if quiet_streak >= 2 {
                            burst_sock.set_read_timeout(Some(Duration::from_millis(5))).unwrap();
                        }
                    } else {
                        quiet_streak = 0;
                    }
                    if t_burst.elapsed() > Duration::from_secs(30) {
                        busy = true;
                        break;
                    }
                }
            }
        }
        if busy {
            out.inconclusive("frozen burst not fully answered, server never settled (overloaded machine)");
            answered = nvalid;
        }
        let _ = pending;
        bg_pause.store(false, std::sync::atomic::Ordering::Relaxed);
        out.obs("frozen_burst_replies", answered as i64);
        let drops_now = crate::inproc::udp_drops(sp.cfg.port).unwrap_or(0);
        if answered < nvalid && drops_now == drops0 {
            v.push((
                format!("C15 burst requests-unanswered junk-prefix={}", junk > 0),
                format!("{} of {} requests queued while the process was stopped{} were never answered (the server has settled: all threads blocked, receive queue unchanged)", nvalid - answered, nvalid, if junk > 0 { format!(" behind {} droppable datagrams", junk) } else { String::new() }),
            ));
        }
    }
    // stay alive for the rest of the window
    while t0.elapsed() < window {
        std::thread::sleep(Duration::from_millis(50));
    }
    bg_stop.store(true, std::sync::atomic::Ordering::Relaxed);
    let (bg_ok, bg_unanswered, bg_invalid, bg_first) = bg.join().unwrap_or((0, 0, 0, None));
    out.obs("window_probes_answered", bg_ok as i64);
    let faulty = sp.cfg.fault_percentage.unwrap_or(0) > 0;
    let drops_moved = crate::inproc::udp_drops(sp.cfg.port).map(|d| d != drops0).unwrap_or(false);
    if bg_unanswered > 0 && bg_invalid == 0 && drops_moved {
        // the kernel dropped datagrams at the server's socket (receive buffer full while the
        // process was stopped): an unanswered probe is then not the server's doing
        out.inconclusive("kernel drop counter moved during the observation window");
    } else if bg_unanswered > 0 || (bg_invalid > 0 && !faulty) {
        v.push((
            format!("C15 window probes-{} workers={}", if bg_unanswered > 0 { "unanswered" } else { "invalid" }, if nworkers > 1 { ">1" } else { "1" }),
            format!("during the {:?} observation window {} probes went unanswered and {} got an invalid reply ({} answered): {}", window, bg_unanswered, bg_invalid, bg_ok, bg_first.unwrap_or_default()),
        ));
    }
    // threads (checked at the end of the window: workers are spawned one after another, so a
    // listing taken at the first reply may legitimately precede the later workers)
    if sp.exited().is_none() {
        let names = sp.thread_names();
        for i in 0..nworkers {
            if !names.iter().any(|n| n == &format!("worker-{}", i)) {
                v.push((format!("C15 start worker-thread-missing workers={}", if nworkers > 1 { ">1" } else { "1" }), format!("thread worker-{} is not running {:?} after readiness (threads: {:?})", i, t0.elapsed(), names)));
                break;
            }
        }
        out.obs("thread_listings", 1);
    }
    if let Some(st) = sp.exited() {
        v.push(("C15 start process-exited".into(), format!("server exited with {:?} during the observation window", st)));
    }
    let outp = sp.output();
    if outp.contains("panicked") {
        let line = outp.lines().find(|l| l.contains("panicked")).unwrap_or("").to_string();
        let site = line.split("panicked at ").nth(1).unwrap_or("").split(':').next().unwrap_or("").to_string();
        let site = site.find("src/").map(|i| site[i..].to_string()).unwrap_or(site);
        v.push((format!("C15 start panic {} workers={} health={}", site, if nworkers > 1 { ">1" } else { "1" }, sp.cfg.health_check_port.is_some()), format!("panic text in server output: {}", outp.lines().filter(|l| l.contains("panicked") || l.contains("failed")).take(3).collect::<Vec<_>>().join(" / "))));
    }
    // final probe: still serving
    if sp.exited().is_none() && probe(sp.cfg.port, pk, Proto::Classic, rng, Duration::from_millis(1500)).is_err() && sp.cfg.fault_percentage.unwrap_or(0) == 0 {
        v.push(("C15 start stopped-serving".into(), "no verified reply at the end of the observation window".into()));
    }
    v
}

fn run_config(ctx: &Ctx, out: &mut Out, cfg0: &SrvCfg, rng: &mut Rng, tag: &str, fixed_ports: bool) {
    let pk = RefKey::from_seed(&cfg0.seed).public();
    let nworkers = cfg0.num_workers.unwrap_or(16) as usize;
    let mut attempt = 0;
    loop {
        attempt += 1;
        let mut cfg = cfg0.clone();
        // a share of the configurations runs on fewer CPUs than it has workers
        if nworkers >= 2 && cfg0.seed[0] % 5 == 0 {
            cfg.pin = Some(if cfg0.seed[1] % 2 == 0 { "0".into() } else { "0,1".into() });
        }
        if !fixed_ports {
            // (health_check_port Some(2) = "the same number as the UDP port": TCP and UDP port
            // spaces are separate, the documentation puts no such restriction on the two settings)
            let same = cfg.health_check_port == Some(2);
            cfg.port = free_port(same);
            if cfg.health_check_port.is_some() {
                cfg.health_check_port = Some(if same { cfg.port } else { free_port(true) });
            }
            if same {
                out.obs("configs_with_health_port_number_equal_to_udp_port", 1);
            }
        }
        let desc = json!({"kind":"server-config","config":cfg.describe()});
        let mut sp = match spawn_server(&ctx.bins, &cfg, &ctx.scratch, tag, None) {
            Ok(s) => s,
            Err(e) => {
                out.inconclusive(&format!("spawn failed: {}", e));
                return;
            }
        };
        match sp.wait_ready(&pk, Duration::from_secs(10)) {
            Ok(d) => out.obs_max("ready_ms", d.as_millis() as i64),
            Err(e) => {
                let o = sp.output();
                if o.contains("Address already in use") || o.contains("AddrInUse") {
                    if attempt < 3 && !fixed_ports {
                        continue;
                    }
                    // a port collision with another process is an environment problem -- unless the
                    // server collides with itself (several workers binding the same health port)
                    if !(cfg.health_check_port.is_some() && nworkers > 1) {
                        out.inconclusive("port in use");
                        return;
                    }
                }
                let site = o.lines().find(|l| l.contains("panicked at")).and_then(|l| l.split("panicked at ").nth(1)).unwrap_or("").split(':').next().unwrap_or("").to_string();
                let site = site.find("src/").map(|i| site[i..].to_string()).unwrap_or(site);
                out.violation(
                    &format!("C15 start did-not-serve {} workers={} health={}", site, if nworkers > 1 { ">1" } else { "1" }, cfg.health_check_port.is_some()),
                    &format!("in-range configuration never served: {}; output: {}", e, o.lines().filter(|l| l.contains("panicked") || l.contains("ERROR") || l.contains("failed")).take(4).collect::<Vec<_>>().join(" / ")),
                    desc,
                );
                return;
            }
        }
        let viol = observe(out, &mut sp, &pk, nworkers, rng, Duration::from_secs(3));
        out.obs("configurations_observed", 1);
        if cfg.pin.is_some() {
            out.obs("configurations_on_fewer_cpus_than_workers", 1);
        }
        if nworkers > 1 && cfg.health_check_port.is_some() {
            out.obs("configs_multiworker_with_health", 1);
        }
        for (sig, why) in viol {
            out.violation(&sig, &why, desc.clone());
        }
        // orderly stop
        sp.signal(libc::SIGTERM);
        let stopped = match sp.wait_exit(Duration::from_secs(10)) {
            Some((st, _)) => {
                if st.code() != Some(0) {
                    out.obs("info_exit_nonzero_on_sigterm", 1);
                }
                true
            }
            None => {
                out.obs("info_no_exit_10s_after_sigterm", 1);
                sp.kill();
                false
            }
        };
        // a share of the configurations is started again at once on the same ports (a service
        // manager restarting the unit): connections of the first run are still in TIME_WAIT
        if stopped && !fixed_ports && (cfg0.seed[2] % 3 == 0 || (nworkers == 1 && cfg.health_check_port.is_some())) {
            drop(sp);
            let desc = json!({"kind":"server-config","config":cfg.describe(),"restart":"immediately on the same ports"});
            match spawn_server(&ctx.bins, &cfg, &ctx.scratch, &format!("{}-again", tag), None) {
                Ok(mut sp2) => {
                    out.obs("immediate_restarts_on_same_ports", 1);
                    match sp2.wait_ready(&pk, Duration::from_secs(10)) {
                        Ok(_) => {
                            set_current_server(Some((sp2.pid(), cfg.port)));
                            if let Some(hp) = cfg.health_check_port {
                                match health_once(hp, Duration::from_secs(3)) {
                                    Ok(r) if r.starts_with(HTTP_PREFIX) => out.obs("health_checks_after_restart_ok", 1),
                                    Err(e) if e.starts_with("LATE") || e.starts_with("BUSY") => out.inconclusive("health check answered late / server never settled (loaded machine)"),
                                    other => out.violation("C15 restart health-unanswered", &format!("after an immediate restart on the same ports the health check is not answered: {:?}", other), desc.clone()),
                                }
                            }
                        }
                        Err(e) => {
                            let o = sp2.output();
                            let foreign = o.contains("Address already in use") && std::net::UdpSocket::bind(("127.0.0.1", cfg.port)).is_err() && sp2.exited().is_some() && false;
                            if !foreign {
                                out.violation(
                                    &format!("C15 restart did-not-serve workers={} health={}", if nworkers > 1 { ">1" } else { "1" }, cfg.health_check_port.is_some()),
                                    &format!("the configuration served, was stopped with SIGTERM and started again at once on the same ports: {}; output: {}", e, o.lines().filter(|l| l.contains("panicked") || l.contains("ERROR") || l.contains("failed")).take(3).collect::<Vec<_>>().join(" / ")),
                                    desc,
                                );
                            }
                        }
                    }
                    sp2.signal(libc::SIGTERM);
                    if sp2.wait_exit(Duration::from_secs(10)).is_none() {
                        sp2.kill();
                    }
                }
                Err(_) => out.inconclusive("spawn failed"),
            }
        }
        return;
    }
}

pub fn run(ctx: &Ctx, out: &mut Out) {
    let mut rng = ctx.rng("C15");
    if ctx.replay.is_some() {
        out.note("C15 replay re-runs the monitor (configurations are enumerated deterministically)");
    }
    // the repository's own example.cfg, as it is (shard 0 only: fixed ports 8686/8000)
    if ctx.shard == 0 {
        let path = ctx.repo.join("example.cfg");
        if let Ok(txt) = std::fs::read_to_string(&path) {
            let mut cfg = SrvCfg::new(0, &[0; 32]);
            for l in txt.lines() {
                if let Some((k, v)) = l.split_once(':') {
                    let v = v.trim();
                    match k.trim() {
                        "port" => cfg.port = v.parse().unwrap_or(0),
                        "seed" => cfg.seed = crate::prng::unhex(v).unwrap_or_default(),
                        "health_check_port" => cfg.health_check_port = v.parse().ok(),
                        "batch_size" => cfg.batch_size = v.parse().ok(),
                        "num_workers" => cfg.num_workers = v.parse().ok(),
                        _ => {}
                    }
                }
            }
            let busy = UdpSocket::bind(("127.0.0.1", cfg.port)).is_err() || cfg.health_check_port.map(|p| std::net::TcpListener::bind(("127.0.0.1", p)).is_err()).unwrap_or(false);
            if busy {
                out.inconclusive("example.cfg ports busy");
            } else {
                // run the file itself, not a re-rendering of it
                let pk = RefKey::from_seed(&cfg.seed).public();
                let nworkers = cfg.num_workers.map(|n| n as usize).unwrap_or_else(|| std::thread::available_parallelism().map(|n| n.get()).unwrap_or(1));
                let raw: Vec<(String, String)> = txt.lines().filter_map(|l| l.split_once(':')).map(|(k, v)| (k.trim().to_string(), v.trim().to_string())).collect();
                out.case(fnv64(b"example.cfg"), true);
                match spawn_server(&ctx.bins, &cfg, &ctx.scratch, "example", Some(raw)) {
                    Ok(mut sp) => {
                        let desc = json!({"kind":"server-config","config":"example.cfg as shipped"});
                        match sp.wait_ready(&pk, Duration::from_secs(10)) {
                            Ok(_) => {
                                let viol = observe(out, &mut sp, &pk, nworkers, &mut rng, Duration::from_secs(3));
                                out.obs("example_cfg_observed", 1);
                                out.obs("configurations_observed", 1);
                                out.obs("configs_multiworker_with_health", (nworkers > 1 && cfg.health_check_port.is_some()) as i64);
                                for (sig, why) in viol {
                                    out.violation(&format!("{} [example.cfg]", sig), &why, desc.clone());
                                }
                            }
                            Err(e) => out.violation("C15 start did-not-serve [example.cfg]", &format!("{}: {}", e, sp.output().lines().filter(|l| l.contains("panicked") || l.contains("failed")).take(3).collect::<Vec<_>>().join(" / ")), desc),
                        }
                        sp.signal(libc::SIGTERM);
                        if sp.wait_exit(Duration::from_secs(10)).is_none() {
                            sp.kill();
                        }
                    }
                    Err(e) => out.inconclusive(&format!("spawn failed: {}", e)),
                }
            }
        }
    }
    // the documented option grid
    let workers = [1u32, 2, 3, 8, 16];
    let healths = [false, true];
    let batches = [1u32, 2, 63, 64];
    let faults = [0u32, 1, 50];
    let intervals = [1u32, 10, 600];
    let stats = [false, true];
    let sources = [false, true];
    let persist = ctx.scratch.join("persist");
    std::fs::create_dir_all(&persist).ok();
    // the same directory reached through a symbolic link (a common way to point at a data volume)
    let persist_link = ctx.scratch.join("persist-link");
    let _ = std::os::unix::fs::symlink(&persist, &persist_link);
    let mut grid: Vec<SrvCfg> = Vec::new();
    if ctx.thorough {
        // full grid with num_workers 1..=16
        for w in 1..=16u32 {
            for h in healths {
                for b in batches {
                    for f in faults {
                        for si in intervals {
                            for st in stats {
                                // sources alternate over the grid (both appear with every single value)
                                let env = (w + b + f + si + st as u32 + h as u32) % 2 == 0;
                                let mut c = SrvCfg::new(0, &rng.bytes(32));
                                c.num_workers = Some(w);
                                c.health_check_port = if h { Some(if grid.len() % 11 == 5 { 2 } else { 1 }) } else { None };
                                c.batch_size = Some(b);
                                c.fault_percentage = Some(f);
                                c.status_interval = Some(si);
                                if st {
                                    c.client_stats = Some("on".into());
                                    c.persistence_directory = Some(if grid.len() % 3 == 1 && persist_link.exists() { persist_link.clone() } else { persist.clone() });
                                }
                                c.via_env = env;
                                c.seed_upper = grid.len() % 7 == 3;
                                grid.push(c);
                            }
                        }
                    }
                }
            }
        }
        let mut idx: Vec<usize> = (0..grid.len()).collect();
        Rng::new(ctx.seed).shuffle(&mut idx);
        grid = idx.into_iter().map(|i| grid[i].clone()).collect();
    } else {
        // pairwise-covering sample: every value of every option, every pair (workers x health)
        let mut k = 0usize;
        for w in workers {
            for h in healths {
                for env in sources {
                    let mut c = SrvCfg::new(0, &rng.bytes(32));
                    c.num_workers = Some(w);
                    c.health_check_port = if h { Some(1) } else { None };
                    c.batch_size = Some(batches[k % 4]);
                    c.fault_percentage = Some(faults[(k / 2) % 3]);
                    c.status_interval = Some(intervals[(k / 3) % 3]);
                    if stats[(k / 2) % 2] {
                        c.client_stats = Some("on".into());
                        c.persistence_directory = Some(if k % 4 >= 2 && persist_link.exists() { persist_link.clone() } else { persist.clone() });
                    }
                    c.via_env = env;
                    c.seed_upper = k % 5 == 2;
                    grid.push(c);
                    k += 1;
                }
            }
        }
        for extra in 0..12 {
            let mut c = SrvCfg::new(0, &rng.bytes(32));
            c.num_workers = Some(rng.range(1, 16) as u32);
            c.health_check_port = if extra % 2 == 0 { Some(1) } else { None };
            c.batch_size = Some(*rng.pick(&batches));
            c.fault_percentage = Some(*rng.pick(&faults));
            c.status_interval = Some(*rng.pick(&intervals));
            if extra % 3 == 0 {
                c.client_stats = Some("yes".into());
                c.persistence_directory = Some(persist.clone());
            }
            c.via_env = extra % 4 < 2;
            if extra % 4 == 2 {
                c.health_check_port = Some(2);
            }
            grid.push(c);
        }
    }
    out.extra.insert("grid".into(), json!({"configurations_in_grid": grid.len(), "thorough_full_grid": ctx.thorough}));
    for (i, c) in grid.iter().enumerate() {
        if i as u64 % ctx.nshards != ctx.shard {
            continue;
        }
        out.case(fnv64(format!("{:?}", c.describe()).as_bytes()) ^ i as u64, true);
        run_config(ctx, out, c, &mut rng, &format!("cfg{}", i), false);
        if out.samples.len() < 3 {
            out.sample(c.describe());
        }
        if !ctx.time_left() {
            out.note("configuration loop cut by wall budget");
            break;
        }
    }
    out.floor("configurations_observed", 16);
    out.floor("configs_multiworker_with_health", 1);
    out.floor("health_connections", 50);
    out.floor("probes_answered", 1000);
    out.floor("window_probes_answered", 1000);
    out.floor("frozen_burst_with_health_phases", 5);
}
