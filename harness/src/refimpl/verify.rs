//! Reference response verifier, written from the protocol descriptions.

use super::codec::*;
use super::crypto::*;

#[derive(Debug, Clone)]
pub struct Verified {
    pub midp: u64,
    pub radi: u32,
    pub mint: u64,
    pub maxt: u64,
    pub online_pk: Vec<u8>,
    pub srep: Vec<u8>,
    pub root: Vec<u8>,
    pub depth: usize,
    pub indx: u32,
    pub cert: Vec<u8>,
    pub nonce_echo: Option<Vec<u8>>,
    pub has_vers: bool,
}

#[derive(Debug, Clone, Copy)]
pub struct Opts {
    /// server-side conformance: strict codec everywhere, strict framing, exact field
    /// sets and sizes, NONC echo, INDX < 2^depth, VER/VERS inside SREP
    pub strict: bool,
}

/// Lenient structural decoder used for the client-side "is this authentic" question:
/// structure (count, offsets) enforced, tag order / unknown tags not.
pub fn lenient(b: &[u8]) -> Result<RefMsg, String> {
    if b.len() < 4 || b.len() % 4 != 0 {
        return Err("message shorter than 4 bytes or unaligned".into());
    }
    let n = u32::from_le_bytes([b[0], b[1], b[2], b[3]]) as u64;
    if n == 0 {
        return Ok(RefMsg::new());
    }
    let header = 8 * n;
    if header > b.len() as u64 {
        return Err("header does not fit".into());
    }
    let n = n as usize;
    let header = header as usize;
    let dl = b.len() - header;
    let mut offs = vec![0usize];
    for i in 0..n - 1 {
        let o = u32::from_le_bytes([b[4 + 4 * i], b[5 + 4 * i], b[6 + 4 * i], b[7 + 4 * i]]) as usize;
        if o % 4 != 0 || o < *offs.last().unwrap() || o > dl {
            return Err("bad offset".into());
        }
        offs.push(o);
    }
    offs.push(dl);
    let tb = 4 + 4 * (n - 1);
    let mut m = RefMsg::new();
    for i in 0..n {
        let t = u32::from_le_bytes([b[tb + 4 * i], b[tb + 4 * i + 1], b[tb + 4 * i + 2], b[tb + 4 * i + 3]]);
        if m.has(t) {
            return Err("duplicate tag".into());
        }
        m.fields.push((t, b[header + offs[i]..header + offs[i + 1]].to_vec()));
    }
    Ok(m)
}

fn dec(b: &[u8], strict: bool, what: &str) -> Result<RefMsg, String> {
    if strict {
        RefMsg::decode(b).map_err(|e| format!("{} does not decode: {:?}", what, e))
    } else {
        lenient(b).map_err(|e| format!("{} does not decode: {}", what, e))
    }
}

fn need<'a>(m: &'a RefMsg, t: u32, what: &str) -> Result<&'a [u8], String> {
    m.get(t).ok_or_else(|| format!("{} lacks {}", what, tag_name(t)))
}

/// The request as the verifier needs it: protocol, leaf input and nonce.
pub struct ReqView<'a> {
    pub proto: Proto,
    pub packet: &'a [u8],
    pub nonce: Vec<u8>,
}

impl<'a> ReqView<'a> {
    pub fn leaf_input(&self) -> &[u8] {
        match self.proto {
            Proto::Classic => &self.nonce,
            Proto::Ietf => self.packet,
        }
    }
}

pub fn verify_response(req: &ReqView, resp: &[u8], pinned_pk: &[u8], o: Opts) -> Result<Verified, String> {
    let p = req.proto;
    let payload: &[u8] = match p {
        Proto::Classic => resp,
        Proto::Ietf => {
            if o.strict {
                unframe(resp).map_err(|e| e.to_string())?
            } else {
                if resp.len() < 12 || &resp[0..8] != b"ROUGHTIM" {
                    return Err("frame magic missing".into());
                }
                &resp[12..]
            }
        }
    };
    let top = dec(payload, o.strict, "response")?;
    let sig = need(&top, SIG, "response")?;
    let path = need(&top, PATH, "response")?;
    let srep_b = need(&top, SREP, "response")?;
    let cert_b = need(&top, CERT, "response")?;
    let indx_b = need(&top, INDX, "response")?;
    if sig.len() != 64 {
        return Err(format!("SIG is {} bytes", sig.len()));
    }
    if indx_b.len() != 4 {
        return Err(format!("INDX is {} bytes", indx_b.len()));
    }
    let indx = u32::from_le_bytes([indx_b[0], indx_b[1], indx_b[2], indx_b[3]]);

    let cert = dec(cert_b, o.strict, "CERT")?;
    let cert_sig = need(&cert, SIG, "CERT")?;
    let dele_b = need(&cert, DELE, "CERT")?;
    if cert_sig.len() != 64 {
        return Err(format!("CERT.SIG is {} bytes", cert_sig.len()));
    }
    let dele = dec(dele_b, o.strict, "DELE")?;
    let pubk = need(&dele, PUBK, "DELE")?;
    let mint_b = need(&dele, MINT, "DELE")?;
    let maxt_b = need(&dele, MAXT, "DELE")?;
    if pubk.len() != 32 || mint_b.len() != 8 || maxt_b.len() != 8 {
        return Err("DELE field sizes".into());
    }
    let mint = u64::from_le_bytes(mint_b.try_into().unwrap());
    let maxt = u64::from_le_bytes(maxt_b.try_into().unwrap());

    let srep = dec(srep_b, o.strict, "SREP")?;
    let radi_b = need(&srep, RADI, "SREP")?;
    let midp_b = need(&srep, MIDP, "SREP")?;
    let root = need(&srep, ROOT, "SREP")?;
    if radi_b.len() != 4 || midp_b.len() != 8 {
        return Err("SREP field sizes".into());
    }
    let radi = u32::from_le_bytes(radi_b.try_into().unwrap());
    let midp = u64::from_le_bytes(midp_b.try_into().unwrap());
    if root.len() != p.width() {
        return Err(format!("ROOT is {} bytes, protocol hash width is {}", root.len(), p.width()));
    }

    // signature chain under the protocol's own context strings
    let mut m = p.dele_ctx().to_vec();
    m.extend_from_slice(dele_b);
    if !ed_verify(pinned_pk, &m, cert_sig) {
        return Err("CERT.SIG does not verify under the long-term key with this protocol's delegation context".into());
    }
    let mut m = p.srep_ctx().to_vec();
    m.extend_from_slice(srep_b);
    if !ed_verify(pubk, &m, sig) {
        return Err("SIG does not verify under the delegated key over SREP".into());
    }
    if midp < mint || midp > maxt {
        return Err(format!("MIDP {} outside delegation window [{}, {}]", midp, mint, maxt));
    }

    // Merkle binding of this request
    let r = root_from_path(p, req.leaf_input(), indx, path)?;
    if r != root {
        return Err(format!(
            "PATH/INDX do not recompute ROOT from this request (protocol {} leaf definition, node width {})",
            p.name(),
            p.width()
        ));
    }
    let depth = path.len() / p.width();

    let mut has_vers = false;
    if o.strict {
        if depth < 32 && (indx as u64) >= (1u64 << depth) {
            return Err(format!("INDX {} has bits above PATH depth {}", indx, depth));
        }
        let echo = need(&top, NONC, "response")?;
        if echo != req.nonce.as_slice() {
            return Err("NONC echo differs from the request's nonce".into());
        }
        if p == Proto::Ietf {
            let ver = need(&srep, VER, "SREP")?;
            if ver != DRAFT13.to_le_bytes() {
                return Err("SREP.VER is not draft-13".into());
            }
            let vers = need(&srep, VERS, "SREP")?;
            if vers.is_empty() || vers.len() % 4 != 0 {
                return Err("SREP.VERS is not a list of 4-byte versions".into());
            }
            let list: Vec<u32> = vers.chunks(4).map(|c| u32::from_le_bytes(c.try_into().unwrap())).collect();
            if !list.contains(&DRAFT13) {
                return Err("SREP.VERS does not contain draft-13".into());
            }
            if list.windows(2).any(|w| w[0] >= w[1]) {
                return Err("SREP.VERS not in ascending order".into());
            }
            has_vers = true;
        }
    }

    Ok(Verified {
        midp,
        radi,
        mint,
        maxt,
        online_pk: pubk.to_vec(),
        srep: srep_b.to_vec(),
        root: root.to_vec(),
        depth,
        indx,
        cert: cert_b.to_vec(),
        nonce_echo: top.get(NONC).map(|v| v.to_vec()),
        has_vers,
    })
}

/// Does the certificate (CERT value) verify under `pk` with `p`'s delegation context?
pub fn cert_verifies(cert_b: &[u8], pk: &[u8], p: Proto) -> bool {
    let cert = match RefMsg::decode(cert_b) {
        Ok(c) => c,
        Err(_) => return false,
    };
    let (Some(s), Some(d)) = (cert.get(SIG), cert.get(DELE)) else { return false };
    let mut m = p.dele_ctx().to_vec();
    m.extend_from_slice(d);
    ed_verify(pk, &m, s)
}
