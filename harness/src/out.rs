//! Per-shard result record: what was explored, what was observed, what was violated.

use serde_json::{json, Map, Value};
use std::collections::{BTreeMap, HashSet};
use std::time::{Duration, Instant};

pub struct Ctx {
    pub prop: String,
    pub seed: u64,
    pub shard: u64,
    pub nshards: u64,
    pub thorough: bool,
    pub bins: std::path::PathBuf,
    pub repo: std::path::PathBuf,
    pub verif: std::path::PathBuf,
    pub scratch: std::path::PathBuf,
    pub start: Instant,
    pub budget: Duration,
    pub replay: Option<Value>,
    pub mode: String,
}

impl Ctx {
    pub fn time_left(&self) -> bool {
        self.start.elapsed() < self.budget
    }
    pub fn rng(&self, label: &str) -> crate::prng::Rng {
        crate::prng::Rng::derive(self.seed, label, self.shard)
    }
    /// pick quick or thorough amount, divided over shards (at least 1)
    pub fn share(&self, quick: u64, thorough: u64) -> u64 {
        let t = if self.thorough { thorough } else { quick };
        std::cmp::max(1, (t + self.nshards - 1) / self.nshards)
    }
}

pub struct Violation {
    pub signature: String,
    pub reason: String,
    pub replay: Value,
}

pub struct Out {
    pub evaluations: u64,
    distinct: HashSet<u64>,
    pub samples: Vec<Value>,
    pub observed: BTreeMap<String, i64>,
    pub floors: BTreeMap<String, i64>,
    pub violations: Vec<Violation>,
    pub violation_counts: BTreeMap<String, u64>,
    pub inconclusive: BTreeMap<String, u64>,
    pub notes: Vec<String>,
    pub exhaustive: Option<bool>,
    pub extra: Map<String, Value>,
}

impl Out {
    pub fn new() -> Out {
        Out {
            evaluations: 0,
            distinct: HashSet::new(),
            samples: Vec::new(),
            observed: BTreeMap::new(),
            floors: BTreeMap::new(),
            violations: Vec::new(),
            violation_counts: BTreeMap::new(),
            inconclusive: BTreeMap::new(),
            notes: Vec::new(),
            exhaustive: None,
            extra: Map::new(),
        }
    }

    /// one evaluated case; `desc` identifies it (hash of its descriptor), `nontrivial`
    /// by the monitor's stated rule
    pub fn case(&mut self, desc: u64, nontrivial: bool) {
        self.evaluations += 1;
        if nontrivial {
            self.distinct.insert(desc);
        }
    }

    pub fn obs(&mut self, key: &str, n: i64) {
        *self.observed.entry(key.to_string()).or_insert(0) += n;
    }

    pub fn obs_max(&mut self, key: &str, n: i64) {
        let e = self.observed.entry(format!("max:{}", key)).or_insert(i64::MIN);
        if n > *e {
            *e = n;
        }
    }

    /// the merged run must have observed at least `min` of counter `key`, else it is a
    /// harness error (a check that saw nothing must not pass silently)
    pub fn floor(&mut self, key: &str, min: i64) {
        self.floors.insert(key.to_string(), min);
    }

    pub fn sample(&mut self, v: Value) {
        if self.samples.len() < 6 {
            self.samples.push(v);
        }
    }

    pub fn violation(&mut self, signature: &str, reason: &str, replay: Value) {
        let c = self.violation_counts.entry(signature.to_string()).or_insert(0);
        *c += 1;
        if *c <= 2 {
            self.violations.push(Violation { signature: signature.to_string(), reason: reason.to_string(), replay });
        }
    }

    pub fn inconclusive(&mut self, reason: &str) {
        *self.inconclusive.entry(reason.to_string()).or_insert(0) += 1;
    }

    pub fn note(&mut self, s: &str) {
        if self.notes.len() < 50 && !self.notes.iter().any(|n| n == s) {
            self.notes.push(s.to_string());
        }
    }

    pub fn to_json(&self, ctx: &Ctx) -> Value {
        let v: Vec<Value> = self
            .violations
            .iter()
            .map(|v| json!({"signature": v.signature, "reason": v.reason, "replay": v.replay}))
            .collect();
        json!({
            "prop": ctx.prop,
            "shard": ctx.shard,
            "seed": ctx.seed,
            "evaluations": self.evaluations,
            "distinct_nontrivial": self.distinct.len(),
            "samples": self.samples,
            "observed": self.observed,
            "floors": self.floors,
            "violations": v,
            "violation_counts": self.violation_counts,
            "inconclusive": self.inconclusive,
            "notes": self.notes,
            "exhaustive": self.exhaustive,
            "extra": self.extra,
            "wall_s": ctx.start.elapsed().as_secs_f64(),
        })
    }
}

pub fn b64(b: &[u8]) -> String {
    const T: &[u8] = b"ABCDEFGHIJKLMNOPQRSTUVWXYZabcdefghijklmnopqrstuvwxyz0123456789+/";
    let mut s = String::new();
    for c in b.chunks(3) {
        let n = (c[0] as u32) << 16 | (*c.get(1).unwrap_or(&0) as u32) << 8 | *c.get(2).unwrap_or(&0) as u32;
        s.push(T[(n >> 18) as usize & 63] as char);
        s.push(T[(n >> 12) as usize & 63] as char);
        s.push(if c.len() > 1 { T[(n >> 6) as usize & 63] as char } else { '=' });
        s.push(if c.len() > 2 { T[n as usize & 63] as char } else { '=' });
    }
    s
}
