//! C01 — the real client never reports an unauthentic response as verified.
//! C03 — the real client accepts every honest response and prints its midpoint.
//! The harness is the server: it answers the client's datagrams with responses from the
//! reference responder (honest, or with exactly one forgery operator applied).

use std::io::Read;
use std::net::{SocketAddr, UdpSocket};
use std::process::{Command, Stdio};
use std::time::{Duration, Instant};

use serde_json::json;

use crate::out::{b64, Ctx, Out};
use crate::prng::{fnv64, hex, Rng};
use crate::refimpl::codec::*;
use crate::refimpl::crypto::*;
use crate::refimpl::req;
use crate::refimpl::responder::{Batch, RefServer, RespParts};
use crate::refimpl::verify::{verify_response, Opts, ReqView};

#[derive(Clone, Copy, Debug, PartialEq)]
pub enum KeyEnc {
    None,
    Hex,
    B64,
    HexUpper,
    HexMixed,
}

#[derive(Clone, Copy, Debug, PartialEq)]
pub enum Mode {
    Plain,
    Json,
    Verbose,
}

pub struct ClientRun {
    pub requests: Vec<(Vec<u8>, SocketAddr)>,
    pub exit: Option<i32>,
    pub stdout: String,
    pub stderr: String,
    /// (time string, verified flag if the mode shows it) in output order
    pub times: Vec<(String, Option<bool>)>,
    pub watchdog: bool,
    pub responses: Vec<Vec<u8>>,
    pub args: Vec<String>,
}

pub struct ClientReq<'a> {
    pub index: usize,
    pub packet: &'a [u8],
    pub nonce: Vec<u8>,
    pub all: &'a [(Vec<u8>, SocketAddr)],
}

pub fn request_nonce(proto: Proto, pkt: &[u8]) -> Option<Vec<u8>> {
    req::parse_request(pkt).filter(|i| i.proto == proto).map(|i| i.nonce)
}

/// Run the real client against `sock`; `respond` produces the datagram for each request
/// (None = send nothing).
pub fn run_client(ctx: &Ctx, proto: Proto, key: Option<(&[u8], KeyEnc)>, mode: Mode, n: usize, extra: &[&str], respond: &mut dyn FnMut(&ClientReq) -> Option<Vec<u8>>) -> Result<ClientRun, String> {
    // "v6": the harness responder listens on the IPv6 loopback (the client then binds [::]:0)
    let v6 = extra.contains(&"v6");
    let sock = UdpSocket::bind(if v6 { "[::1]:0" } else { "127.0.0.1:0" }).map_err(|e| e.to_string())?;
    crate::inproc::set_rcvbuf(std::os::unix::io::AsRawFd::as_raw_fd(&sock), 1 << 20);
    let port = sock.local_addr().unwrap().port();
    let mut args: Vec<String> = vec![if v6 { "::1".into() } else { "127.0.0.1".into() }, port.to_string(), "-p".into(), if proto == Proto::Classic { "0".into() } else { "13".into() }, "-t".into(), "4".into(), "-n".into(), n.to_string()];
    // "tz=<zone>": local-time rendering (no -z) in that zone; otherwise UTC with -z
    let tz = extra.iter().find_map(|e| e.strip_prefix("tz="));
    if tz.is_none() {
        args.push("-z".into());
    }
    if extra.contains(&"wall") {
        args.push("-f".into());
        args.push("W=%Y-%m-%dT%H:%M:%S".into());
    } else if !extra.contains(&"default-format") {
        args.push("-f".into());
        args.push("T=%s.%f".into());
    }
    match key {
        Some((pk, KeyEnc::Hex)) => {
            args.push("-k".into());
            args.push(hex(pk));
        }
        Some((pk, KeyEnc::B64)) => {
            args.push("-k".into());
            args.push(b64(pk));
        }
        Some((pk, KeyEnc::HexUpper)) => {
            args.push("-k".into());
            args.push(hex(pk).to_uppercase());
        }
        Some((pk, KeyEnc::HexMixed)) => {
            args.push("-k".into());
            args.push(hex(pk).chars().enumerate().map(|(i, c)| if i % 3 == 0 { c.to_ascii_uppercase() } else { c }).collect());
        }
        _ => {}
    }
    if let Some(k) = extra.iter().find_map(|e| e.strip_prefix("rawkey=")) {
        args.push("-k".into());
        args.push(k.to_string());
    }
    match mode {
        Mode::Json => args.push("-j".into()),
        Mode::Verbose => args.push("-v".into()),
        Mode::Plain => {}
    }
    // the options that do not change what is printed on stdout: message dump on stderr,
    // requests / responses copied to files
    if extra.contains(&"dump") {
        args.push("-d".into());
    }
    let outfiles = if extra.contains(&"outfiles") {
        static CTR: std::sync::atomic::AtomicU64 = std::sync::atomic::AtomicU64::new(0);
        let c = CTR.fetch_add(1, std::sync::atomic::Ordering::Relaxed);
        std::fs::create_dir_all(&ctx.scratch).ok();
        let a = ctx.scratch.join(format!("client-req-{}-{}", ctx.shard, c));
        let b = ctx.scratch.join(format!("client-resp-{}-{}", ctx.shard, c));
        args.push("-o".into());
        args.push(a.display().to_string());
        args.push("-O".into());
        args.push(b.display().to_string());
        Some((a, b))
    } else {
        None
    };
    let mut cmd = crate::procs::wrapped("RTVERIF_WRAP_CLIENT", &ctx.bins.join("roughenough-client"));
    cmd.args(&args).stdin(Stdio::null()).stdout(Stdio::piped()).stderr(Stdio::piped()).env("TZ", tz.unwrap_or("UTC"));
    let mut child = cmd.spawn().map_err(|e| format!("spawn client: {}", e))?;
    let mut so = child.stdout.take().unwrap();
    let mut se = child.stderr.take().unwrap();
    let h1 = std::thread::spawn(move || {
        let mut v = String::new();
        let _ = so.read_to_string(&mut v);
        v
    });
    let h2 = std::thread::spawn(move || {
        let mut v = String::new();
        let _ = se.read_to_string(&mut v);
        v
    });
    // collect the n requests
    let mut requests: Vec<(Vec<u8>, SocketAddr)> = Vec::new();
    sock.set_read_timeout(Some(Duration::from_millis(200))).unwrap();
    let t0 = Instant::now();
    let mut buf = vec![0u8; 65536];
    while requests.len() < n && t0.elapsed() < Duration::from_secs(8) {
        match sock.recv_from(&mut buf) {
            Ok((l, a)) => requests.push((buf[..l].to_vec(), a)),
            Err(_) => {
                if child.try_wait().map(|s| s.is_some()).unwrap_or(true) {
                    break;
                }
            }
        }
    }
    let mut responses = Vec::new();
    for i in 0..requests.len() {
        let nonce = request_nonce(proto, &requests[i].0).unwrap_or_default();
        let cr = ClientReq { index: i, packet: &requests[i].0, nonce, all: &requests };
        let r = respond(&cr);
        if let Some(d) = &r {
            let _ = sock.send_to(d, requests[i].1);
        }
        responses.push(r.unwrap_or_default());
    }
    // wait for exit (watchdog 12 s; the client's own timeout is 4 s per read)
    let t1 = Instant::now();
    let mut watchdog = false;
    let exit = loop {
        match child.try_wait() {
            Ok(Some(st)) => break st.code(),
            Ok(None) if t1.elapsed() < Duration::from_secs(12 + 4 * n as u64) => std::thread::sleep(Duration::from_millis(1)),
            _ => {
                let _ = child.kill();
                let _ = child.wait();
                watchdog = true;
                break None;
            }
        }
    };
    let stdout = h1.join().unwrap_or_default();
    let stderr = h2.join().unwrap_or_default();
    let times = parse_times(&stdout, &stderr, mode);
    if let Some((a, b)) = outfiles {
        // (information only: no property speaks about these files)
        let _ = std::fs::remove_file(a);
        let _ = std::fs::remove_file(b);
    }
    Ok(ClientRun { requests, exit, stdout, stderr, times, watchdog, responses, args })
}

fn parse_times(stdout: &str, stderr: &str, mode: Mode) -> Vec<(String, Option<bool>)> {
    let mut v = Vec::new();
    match mode {
        Mode::Plain => {
            for l in stdout.lines() {
                if let Some(t) = l.strip_prefix("T=") {
                    v.push((format!("T={}", t.trim()), None));
                } else if l.starts_with("W=") {
                    v.push((l.trim().to_string(), None));
                } else if looks_like_default_time(l) {
                    v.push((l.trim().to_string(), None));
                }
            }
        }
        Mode::Json => {
            for l in stdout.lines() {
                if let Some(i) = l.find("\"midpoint\": \"") {
                    let rest = &l[i + 13..];
                    let t = rest.split('"').next().unwrap_or("").to_string();
                    let ver = if l.contains("\"verified\": true") { Some(true) } else if l.contains("\"verified\": false") { Some(false) } else { None };
                    v.push((t, ver));
                }
            }
        }
        Mode::Verbose => {
            for l in stderr.lines() {
                if let Some(i) = l.find("midpoint=\"") {
                    let rest = &l[i + 10..];
                    let t = rest.split('"').next().unwrap_or("").to_string();
                    let ver = if l.contains("verified=Yes") { Some(true) } else if l.contains("verified=No") { Some(false) } else { None };
                    v.push((t, ver));
                }
            }
        }
    }
    v
}

fn looks_like_default_time(l: &str) -> bool {
    // "Jan 02 2024 03:04:05 UTC"
    let p: Vec<&str> = l.split_whitespace().collect();
    p.len() == 5 && p[4] == "UTC" && p[3].len() == 8 && p[3].as_bytes()[2] == b':'
}

// ------------------------------------------------------------------------- forgery operators

#[derive(Clone, Copy, Debug, PartialEq)]
pub enum Forgery {
    SigFlip,
    PathFlip,
    PathAppend,
    PathRemove,
    IndxOther,
    IndxHighBits,
    SrepMidpUnsigned,
    SrepRadiUnsigned,
    SrepRootUnsigned,
    SrepVerUnsigned,
    MidpOutsideWindowResigned,
    RootOtherTreeResigned,
    CertSigFlip,
    DelePubkUnsigned,
    DeleMintUnsigned,
    DeleMaxtUnsigned,
    OtherLongTermKeyFullChain,
    OtherLongTermKeySameOnline,
    DeleOtherProtocolContext,
    OtherProtocolWholeResponse,
    OtherNonceSplice,
    ReplayWithinRun,
    ReplayAcrossRuns,
    SigFromOtherSrep,
    TruncateAligned,
    RandomBitFlip,
    RandomByte,
    FrameLengthOff,
    RootShortenedResigned,
    WindowEmptyResigned,
    WindowEdgeMissResigned,
    /// SIG replaced by the non-canonical (R, S + L) form of the genuine signature
    SigSPlusL,
    /// the same for CERT.SIG
    CertSigSPlusL,
    /// a replayed genuine response with an extra, unsigned top-level ROOT (and INDX/PATH) fitting
    /// the new request: only what is inside the signed SREP counts
    ReplayWithUnsignedTopLevelRoot,
    /// midpoint outside the (correctly signed) delegation window, "healed" by unsigned top-level
    /// MINT / MAXT / MIDP tags
    WindowHealedByUnsignedTopLevelTags,
    /// CERT carrying two DELE fields (the attacker's and the genuine one, in either order) next to
    /// the genuine signature; SREP signed by the attacker's online key
    CertWithTwoDeles,
}

/// (R, S) -> (R, S + L): verifies under cofactorless "legacy" arithmetic, not under RFC 8032
fn s_plus_l(sig: &mut [u8]) -> bool {
    const L: [u8; 32] = [0xed, 0xd3, 0xf5, 0x5c, 0x1a, 0x63, 0x12, 0x58, 0xd6, 0x9c, 0xf7, 0xa2, 0xde, 0xf9, 0xde, 0x14, 0, 0, 0, 0, 0, 0, 0, 0, 0, 0, 0, 0, 0, 0, 0, 0x10];
    if sig.len() != 64 {
        return false;
    }
    let mut carry = 0u16;
    for i in 0..32 {
        let v = sig[32 + i] as u16 + L[i] as u16 + carry;
        sig[32 + i] = v as u8;
        carry = v >> 8;
    }
    carry == 0
}

pub const ALL_FORGERIES: [Forgery; 36] = [
    Forgery::CertWithTwoDeles,
    Forgery::ReplayWithUnsignedTopLevelRoot,
    Forgery::WindowHealedByUnsignedTopLevelTags,
    Forgery::SigSPlusL,
    Forgery::CertSigSPlusL,
    Forgery::SigFlip,
    Forgery::PathFlip,
    Forgery::PathAppend,
    Forgery::PathRemove,
    Forgery::IndxOther,
    Forgery::IndxHighBits,
    Forgery::SrepMidpUnsigned,
    Forgery::SrepRadiUnsigned,
    Forgery::SrepRootUnsigned,
    Forgery::SrepVerUnsigned,
    Forgery::MidpOutsideWindowResigned,
    Forgery::RootOtherTreeResigned,
    Forgery::CertSigFlip,
    Forgery::DelePubkUnsigned,
    Forgery::DeleMintUnsigned,
    Forgery::DeleMaxtUnsigned,
    Forgery::OtherLongTermKeyFullChain,
    Forgery::OtherLongTermKeySameOnline,
    Forgery::DeleOtherProtocolContext,
    Forgery::OtherProtocolWholeResponse,
    Forgery::OtherNonceSplice,
    Forgery::ReplayWithinRun,
    Forgery::ReplayAcrossRuns,
    Forgery::SigFromOtherSrep,
    Forgery::TruncateAligned,
    Forgery::RandomBitFlip,
    Forgery::RandomByte,
    Forgery::FrameLengthOff,
    Forgery::RootShortenedResigned,
    Forgery::WindowEmptyResigned,
    Forgery::WindowEdgeMissResigned,
];

fn flip(v: &mut Vec<u8>, rng: &mut Rng) -> usize {
    if v.is_empty() {
        return 0;
    }
    let i = rng.usize_below(v.len());
    v[i] ^= 1 << rng.below(8);
    i
}

fn set_flipped(m: &mut RefMsg, tag: u32, rng: &mut Rng) -> bool {
    match m.get(tag).map(|v| v.to_vec()) {
        Some(mut v) if !v.is_empty() => {
            flip(&mut v, rng);
            m.set(tag, &v);
            true
        }
        _ => false,
    }
}

fn midp_for(proto: Proto, secs: u64) -> u64 {
    if proto == Proto::Classic {
        secs * 1_000_000 + 123_456
    } else {
        secs
    }
}

pub struct Forger<'a> {
    pub srv: &'a RefServer,
    pub evil: &'a RefServer,
    pub proto: Proto,
    pub earlier_genuine: Vec<Vec<u8>>,
}

impl<'a> Forger<'a> {
    pub fn honest(&self, cr: &ClientReq, b: &Batch, rng: &mut Rng) -> RespParts {
        let leaf: &[u8] = if self.proto == Proto::Classic { &cr.nonce } else { cr.packet };
        let echo = self.proto == Proto::Ietf || rng.chance(1, 2);
        self.srv.respond(self.proto, leaf, &cr.nonce, b, rng, echo)
    }

    /// Returns (datagram, detail) or None if the operator does not apply to this situation.
    pub fn forge(&self, f: Forgery, cr: &ClientReq, b: &Batch, rng: &mut Rng) -> Option<(Vec<u8>, String)> {
        let p = self.proto;
        let mut parts = self.honest(cr, b, rng);
        let w = p.width();
        let online = self.srv.online();
        let d = match f {
            Forgery::SigFlip => {
                let i = flip(&mut parts.sig, rng);
                (parts.assemble(), format!("SIG byte {}", i))
            }
            Forgery::PathFlip => {
                if parts.path.is_empty() {
                    return None;
                }
                let i = flip(&mut parts.path, rng);
                (parts.assemble(), format!("PATH node {}", i / w))
            }
            Forgery::PathAppend => {
                parts.path.extend_from_slice(&rng.bytes(w));
                (parts.assemble(), "extra PATH element".into())
            }
            Forgery::PathRemove => {
                if parts.path.is_empty() {
                    return None;
                }
                let l = parts.path.len();
                parts.path.truncate(l - w);
                (parts.assemble(), "last PATH element removed".into())
            }
            Forgery::IndxOther => {
                let depth = parts.path.len() / w;
                if depth == 0 {
                    return None;
                }
                let bit = rng.below(depth as u64);
                parts.indx ^= 1 << bit;
                (parts.assemble(), format!("INDX bit {} of depth {}", bit, depth))
            }
            Forgery::IndxHighBits => {
                let depth = parts.path.len() / w;
                parts.indx |= 1 << rng.range(depth as u64, 31);
                (parts.assemble(), "INDX bit above the path depth (does not affect the proof)".into())
            }
            Forgery::SrepMidpUnsigned => {
                set_flipped(&mut parts.srep, MIDP, rng);
                (parts.assemble(), "SREP.MIDP changed, SIG kept".into())
            }
            Forgery::SrepRadiUnsigned => {
                set_flipped(&mut parts.srep, RADI, rng);
                (parts.assemble(), "SREP.RADI changed, SIG kept".into())
            }
            Forgery::SrepRootUnsigned => {
                set_flipped(&mut parts.srep, ROOT, rng);
                (parts.assemble(), "SREP.ROOT changed, SIG kept".into())
            }
            Forgery::SrepVerUnsigned => {
                if !set_flipped(&mut parts.srep, VER, rng) {
                    return None;
                }
                (parts.assemble(), "SREP.VER changed, SIG kept".into())
            }
            Forgery::MidpOutsideWindowResigned => {
                // a narrow, correctly signed delegation window that excludes the (correctly signed) midpoint
                let before = rng.chance(1, 2);
                let (mint, maxt) = if before { (b.midp + 1 + rng.below(1000), u64::MAX) } else { (0, b.midp - 1 - rng.below(1000).min(b.midp - 1)) };
                parts.dele.set(MINT, &mint.to_le_bytes());
                parts.dele.set(MAXT, &maxt.to_le_bytes());
                parts.resign_dele(&self.srv.lt(), p);
                (parts.assemble(), format!("MIDP {} outside correctly signed window [{}, {}]", b.midp, mint, maxt))
            }
            Forgery::RootOtherTreeResigned => {
                parts.srep.set(ROOT, &rng.bytes(w));
                parts.resign_srep(&online);
                (parts.assemble(), "ROOT of another tree, SREP correctly re-signed by the delegated key".into())
            }
            Forgery::CertSigFlip => {
                let i = flip(&mut parts.cert_sig, rng);
                (parts.assemble(), format!("CERT.SIG byte {}", i))
            }
            Forgery::DelePubkUnsigned => {
                // attacker substitutes its own online key without a valid delegation
                let evil_online = self.evil.online();
                parts.dele.set(PUBK, &evil_online.public());
                parts.resign_srep(&evil_online);
                (parts.assemble(), "DELE.PUBK replaced by attacker key (SREP signed by it), CERT.SIG kept".into())
            }
            Forgery::DeleMintUnsigned => {
                set_flipped(&mut parts.dele, MINT, rng);
                (parts.assemble(), "DELE.MINT changed, CERT.SIG kept".into())
            }
            Forgery::DeleMaxtUnsigned => {
                set_flipped(&mut parts.dele, MAXT, rng);
                (parts.assemble(), "DELE.MAXT changed, CERT.SIG kept".into())
            }
            Forgery::OtherLongTermKeyFullChain => {
                let leaf: &[u8] = if p == Proto::Classic { &cr.nonce } else { cr.packet };
                let e = self.evil.respond(p, leaf, &cr.nonce, b, rng, true);
                (e.assemble(), "complete self-consistent chain under a different long-term key".into())
            }
            Forgery::OtherLongTermKeySameOnline => {
                parts.resign_dele(&self.evil.lt(), p);
                (parts.assemble(), "delegation of the genuine online key signed by a different long-term key".into())
            }
            Forgery::DeleOtherProtocolContext => {
                parts.resign_dele(&self.srv.lt(), p.other());
                (parts.assemble(), "delegation signed by the right key under the OTHER protocol's context string".into())
            }
            Forgery::OtherProtocolWholeResponse => {
                // what an honest server of the other protocol would send for this nonce
                let o = p.other();
                let leaf: Vec<u8> = cr.nonce.clone();
                let mut e = self.srv.respond(o, &leaf, &cr.nonce, b, rng, true);
                // deliver it in this protocol's framing so that it is parsed at all
                e.proto = p;
                (e.assemble(), "response built with the other protocol's node width / contexts / SREP layout".into())
            }
            Forgery::OtherNonceSplice => {
                let other_nonce = rng.bytes(p.nonce_len());
                let other_pkt = match p {
                    Proto::Classic => req::classic_request(&other_nonce, cr.packet.len()),
                    Proto::Ietf => req::ietf_request(&[DRAFT13], None, &other_nonce, cr.packet.len()),
                };
                let leaf: &[u8] = if p == Proto::Classic { &other_nonce } else { &other_pkt };
                let e = self.srv.respond(p, leaf, &cr.nonce, b, rng, true);
                (e.assemble(), "genuine response for a different request (echoing this request's nonce)".into())
            }
            Forgery::ReplayWithinRun => {
                if cr.index == 0 {
                    return None;
                }
                let prev = &cr.all[cr.index - 1].0;
                let pn = request_nonce(p, prev)?;
                let leaf: &[u8] = if p == Proto::Classic { &pn } else { prev };
                let e = self.srv.respond(p, leaf, &pn, b, rng, true);
                (e.assemble(), "genuine response to the previous request of this run".into())
            }
            Forgery::ReplayAcrossRuns => {
                if self.earlier_genuine.is_empty() {
                    return None;
                }
                (rng.pick(&self.earlier_genuine).clone(), "genuine response recorded in an earlier client run".into())
            }
            Forgery::SigFromOtherSrep => {
                let mut b2 = b.clone();
                b2.midp += 1;
                let other = self.honest(cr, &b2, rng);
                parts.sig = other.sig;
                (parts.assemble(), "SIG taken from a different genuine SREP".into())
            }
            Forgery::TruncateAligned => {
                let mut d = parts.assemble();
                let min = if p == Proto::Ietf { 12 } else { 0 };
                let l = min + rng.usize_below((d.len() - min) / 4) * 4;
                d.truncate(l);
                (d, format!("truncated to {} bytes", l))
            }
            Forgery::RandomBitFlip => {
                let mut d = parts.assemble();
                let i = flip(&mut d, rng);
                (d, format!("bit flip at byte {}", i))
            }
            Forgery::RandomByte => {
                let mut d = parts.assemble();
                let i = rng.usize_below(d.len());
                d[i] = d[i].wrapping_add(1 + rng.below(255) as u8);
                (d, format!("byte {} changed", i))
            }
            Forgery::RootShortenedResigned => {
                // a key-holding but malicious server: ROOT is a prefix of the true root (or empty),
                // everything correctly signed
                let root = parts.srep.get(ROOT).unwrap().to_vec();
                let keep = *rng.pick(&[0usize, 4, 16, 28, w / 2]);
                parts.srep.set(ROOT, &root[..keep.min(root.len().saturating_sub(4))]);
                parts.resign_srep(&online);
                (parts.assemble(), format!("ROOT shortened to {} bytes, SREP correctly re-signed", keep))
            }
            Forgery::WindowEmptyResigned => {
                // MINT > MAXT: an empty delegation window, correctly signed
                let (mint, maxt) = (b.midp.saturating_sub(rng.range(1, 1_000_000)), b.midp.saturating_sub(rng.range(2_000_000, 4_000_000)));
                let (mint, maxt) = if rng.chance(1, 2) { (mint, maxt) } else { (b.midp + 3_600, b.midp.saturating_sub(3_600)) };
                if mint <= maxt {
                    return None;
                }
                parts.dele.set(MINT, &mint.to_le_bytes());
                parts.dele.set(MAXT, &maxt.to_le_bytes());
                parts.resign_dele(&self.srv.lt(), p);
                (parts.assemble(), format!("empty delegation window MINT {} > MAXT {} (MIDP {}), correctly signed", mint, maxt, b.midp))
            }
            Forgery::WindowEdgeMissResigned => {
                // the midpoint misses the window by exactly one unit, on either side
                let (mint, maxt) = if rng.chance(1, 2) { (b.midp + 1, u64::MAX) } else { (0, b.midp - 1) };
                parts.dele.set(MINT, &mint.to_le_bytes());
                parts.dele.set(MAXT, &maxt.to_le_bytes());
                parts.resign_dele(&self.srv.lt(), p);
                (parts.assemble(), format!("MIDP {} one unit outside the correctly signed window [{}, {}]", b.midp, mint, maxt))
            }
            Forgery::ReplayWithUnsignedTopLevelRoot => {
                if self.earlier_genuine.is_empty() {
                    return None;
                }
                let old = rng.pick(&self.earlier_genuine).clone();
                let payload = if p == Proto::Ietf { crate::refimpl::codec::unframe(&old).ok()?.to_vec() } else { old };
                let mut m = RefMsg::decode(&payload).ok()?;
                let leaf: &[u8] = if p == Proto::Classic { &cr.nonce } else { cr.packet };
                m.set(ROOT, &crate::refimpl::crypto::hash_leaf(p, leaf));
                m.set(INDX, &0u32.to_le_bytes());
                m.set(PATH, &[]);
                if m.get(NONC).is_some() {
                    m.set(NONC, &cr.nonce);
                }
                let d = if p == Proto::Ietf { crate::refimpl::codec::frame(&m.encode()) } else { m.encode() };
                (d, "replayed genuine response plus an unsigned top-level ROOT = leaf hash of the new request (INDX 0, empty PATH)".into())
            }
            Forgery::WindowHealedByUnsignedTopLevelTags => {
                let (mint, maxt) = if rng.chance(1, 2) { (b.midp + 1 + rng.below(1000), u64::MAX) } else { (0, b.midp - 1 - rng.below(1000).min(b.midp - 1)) };
                parts.dele.set(MINT, &mint.to_le_bytes());
                parts.dele.set(MAXT, &maxt.to_le_bytes());
                parts.resign_dele(&self.srv.lt(), p);
                let d0 = parts.assemble();
                let payload = if p == Proto::Ietf { crate::refimpl::codec::unframe(&d0).ok()?.to_vec() } else { d0 };
                let mut m = RefMsg::decode(&payload).ok()?;
                match rng.below(3) {
                    0 => {
                        m.set(MINT, &0u64.to_le_bytes());
                        m.set(MAXT, &u64::MAX.to_le_bytes());
                    }
                    1 => m.set(MIDP, &(if mint > b.midp { mint + 1 } else { maxt.saturating_sub(1) }).to_le_bytes()),
                    _ => {
                        m.set(MINT, &0u64.to_le_bytes());
                        m.set(MAXT, &u64::MAX.to_le_bytes());
                        m.set(MIDP, &b.midp.to_le_bytes());
                    }
                }
                let d = if p == Proto::Ietf { crate::refimpl::codec::frame(&m.encode()) } else { m.encode() };
                (d, format!("MIDP {} outside the signed window [{}, {}], with unsigned top-level MINT/MAXT/MIDP that would fit", b.midp, mint, maxt))
            }
            Forgery::CertWithTwoDeles => {
                let evil_online = self.evil.online();
                let genuine_dele = parts.dele.encode();
                let mut evil_dele = parts.dele.clone();
                evil_dele.set(PUBK, &evil_online.public());
                parts.resign_srep(&evil_online);
                let mut cert = RefMsg::new();
                cert.set(SIG, &parts.cert_sig);
                let attacker_first = rng.chance(1, 2);
                let (a, b) = if attacker_first { (evil_dele.encode(), genuine_dele) } else { (genuine_dele, evil_dele.encode()) };
                cert.fields.push((DELE, a));
                cert.fields.push((DELE, b));
                let d0 = parts.assemble();
                let payload = if p == Proto::Ietf { crate::refimpl::codec::unframe(&d0).ok()?.to_vec() } else { d0 };
                let mut m = RefMsg::decode(&payload).ok()?;
                m.set(CERT, &cert.encode());
                let d = if p == Proto::Ietf { crate::refimpl::codec::frame(&m.encode()) } else { m.encode() };
                (d, format!("CERT = {{SIG genuine, DELE x2 (attacker's {}), SREP signed by the attacker's key}}", if attacker_first { "first" } else { "second" }))
            }
            Forgery::SigSPlusL => {
                if !s_plus_l(&mut parts.sig) {
                    return None;
                }
                (parts.assemble(), "SIG = (R, S + L) of the genuine signature".into())
            }
            Forgery::CertSigSPlusL => {
                if !s_plus_l(&mut parts.cert_sig) {
                    return None;
                }
                (parts.assemble(), "CERT.SIG = (R, S + L) of the genuine signature".into())
            }
            Forgery::FrameLengthOff => {
                if p != Proto::Ietf {
                    return None;
                }
                let mut d = parts.assemble();
                let l = u32::from_le_bytes([d[8], d[9], d[10], d[11]]);
                d[8..12].copy_from_slice(&(l - 4).to_le_bytes());
                (d, "frame length field 4 less than the payload".into())
            }
        };
        Some(d)
    }
}

fn batch_for(rng: &mut Rng, proto: Proto) -> Batch {
    let size = match rng.below(4) {
        0 => 1,
        1 => rng.range(2, 4),
        _ => rng.range(2, 64),
    } as usize;
    let index = rng.usize_below(size);
    let secs = 1_600_000_000 + rng.below(400_000_000);
    Batch { size, index, midp: midp_for(proto, secs), radi: if proto == Proto::Classic { 5_000_000 } else { 5 }, mint: 0, maxt: u64::MAX }
}

fn trial_json(run: &ClientRun, forged_at: Option<usize>, op: &str, detail: &str) -> serde_json::Value {
    json!({"kind":"client-trial","args": run.args, "operator": op, "detail": detail, "forged_position": forged_at,
           "requests": run.requests.iter().map(|r| hex(&r.0)).collect::<Vec<_>>(),
           "responses": run.responses.iter().map(|r| hex(r)).collect::<Vec<_>>(),
           "exit": run.exit, "stdout": run.stdout.chars().take(600).collect::<String>(), "stderr": run.stderr.chars().take(600).collect::<String>()})
}

pub fn run_c01(ctx: &Ctx, out: &mut Out) {
    let mut rng = ctx.rng("C01");
    let srv = RefServer::new(&mut rng);
    let evil = RefServer::new(&mut rng);
    let pk = srv.public();
    let mut nonces_seen: std::collections::HashSet<Vec<u8>> = std::collections::HashSet::new();
    let mut genuine: [Vec<Vec<u8>>; 2] = [Vec::new(), Vec::new()];
    let mut only_op: Option<(String, Proto)> = None;
    if let Some(r) = &ctx.replay {
        // fresh nonces make a byte-identical replay meaningless: a replay re-applies the recorded
        // operator to new client runs of the same protocol
        let ietf = r["args"].as_array().map(|a| a.iter().any(|x| x == "13")).unwrap_or(false);
        only_op = Some((r["operator"].as_str().unwrap_or("").to_string(), if ietf { Proto::Ietf } else { Proto::Classic }));
    }
    let ntrials = if only_op.is_some() { 12 } else { ctx.share(3_200, 64_000) };
    for t in 0..ntrials {
        let gi = t * ctx.nshards + ctx.shard;
        let proto = if gi % 2 == 0 { Proto::Classic } else { Proto::Ietf };
        let pi = (proto == Proto::Ietf) as usize;
        let enc = [KeyEnc::Hex, KeyEnc::B64, KeyEnc::HexUpper, KeyEnc::B64, KeyEnc::HexMixed][((gi / 2) % 5) as usize];
        let mode = match (gi / 4) % 3 {
            0 => Mode::Plain,
            1 => Mode::Json,
            _ => Mode::Verbose,
        };
        // every operator in turn, so each (operator x protocol x encoding) appears
        let mut f = ALL_FORGERIES[((gi / 2) % ALL_FORGERIES.len() as u64) as usize];
        let mut proto = proto;
        if let Some((name, p)) = &only_op {
            if let Some(x) = ALL_FORGERIES.iter().find(|x| format!("{:?}", x) == *name) {
                f = *x;
            }
            proto = *p;
        }
        let pi = (proto == Proto::Ietf) as usize;
        let n = match f {
            Forgery::ReplayWithinRun => rng.range(2, 6) as usize,
            _ => {
                if rng.chance(1, 4) {
                    rng.range(2, 16) as usize
                } else {
                    1
                }
            }
        };
        let forged_at = if f == Forgery::ReplayWithinRun { rng.range(1, n as u64 - 1) as usize } else { rng.usize_below(n) };
        let forger = Forger { srv: &srv, evil: &evil, proto, earlier_genuine: genuine[pi].clone() };
        let mut applied: Option<String> = None;
        let mut authentic_forged: Option<Result<(), String>> = None;
        let mut rr = Rng::new(rng.next_u64());
        let mut honest_out: Vec<Vec<u8>> = Vec::new();
        let mut extra: Vec<&str> = Vec::new();
        if rng.chance(1, 5) {
            extra.push("dump");
            out.obs("runs_with_dump_option", 1);
        }
        if rng.chance(1, 5) {
            extra.push("outfiles");
            out.obs("runs_with_output_files", 1);
        }
        if rng.chance(1, 6) {
            extra.push("v6");
            out.obs("runs_over_ipv6_loopback", 1);
        }
        let res = run_client(ctx, proto, Some((&pk, enc)), mode, n, &extra, &mut |cr| {
            let b = batch_for(&mut rr, proto);
            if cr.index == forged_at {
                if let Some((d, detail)) = forger.forge(f, cr, &b, &mut rr) {
                    let view = ReqView { proto, packet: cr.packet, nonce: cr.nonce.clone() };
                    authentic_forged = Some(verify_response(&view, &d, &pk, Opts { strict: false }).map(|_| ()));
                    applied = Some(detail);
                    return Some(d);
                }
            }
            let h = forger.honest(cr, &b, &mut rr).assemble();
            honest_out.push(h.clone());
            Some(h)
        });
        let run = match res {
            Ok(r) => r,
            Err(e) => {
                out.inconclusive(&format!("client run failed: {}", e));
                continue;
            }
        };
        for h in honest_out {
            if genuine[pi].len() < 16 {
                genuine[pi].push(h);
            }
        }
        out.obs("client_runs", 1);
        if std::env::var("RTVERIF_WRAP_CLIENT").is_ok() {
            out.obs("valgrind_client_runs", 1);
            out.obs("valgrind_error_blocks", crate::procs::valgrind_errors(&run.stderr) as i64);
        }
        if run.watchdog {
            out.inconclusive("client watchdog expired");
            continue;
        }
        if run.requests.len() != n {
            out.inconclusive("client sent fewer requests than asked");
            continue;
        }
        // nonce freshness across everything this shard has seen
        for (pkt, _) in &run.requests {
            match request_nonce(proto, pkt) {
                Some(nc) => {
                    out.obs("nonces_seen", 1);
                    if nc.len() != proto.nonce_len() || !nonces_seen.insert(nc) {
                        out.violation("C01 nonce repeated-or-wrong-length", "the client reused a nonce (or sent one of the wrong length)", trial_json(&run, None, "nonce", ""));
                    }
                }
                None => out.violation("C01 client request malformed", "client request does not parse", trial_json(&run, None, "request", "")),
            }
        }
        let opname = format!("{:?}", f);
        out.case(fnv64(format!("{}{:?}{:?}{:?}{}", opname, proto, enc, mode, gi).as_bytes()), applied.is_some());
        let Some(detail) = applied else {
            out.obs("operator_not_applicable", 1);
            // all-honest run: must be accepted (C03's verdict; recorded here as information)
            out.obs(if run.exit == Some(0) && run.times.len() == n { "info_honest_runs_accepted" } else { "info_honest_runs_rejected" }, 1);
            continue;
        };
        let authentic = authentic_forged.clone().unwrap();
        out.obs(&format!("op_{}_{}", opname, proto.name()), 1);
        let accepted = run.times.len() > forged_at;
        match &authentic {
            Ok(()) => {
                // the operator left every listed condition intact: no claim either way
                out.obs("neutral_trials", 1);
                out.obs(if accepted { "neutral_accepted" } else { "neutral_rejected" }, 1);
            }
            Err(why) => {
                out.obs("unauthentic_responses_delivered", 1);
                let cls = crate::c09::reason_class(why);
                if accepted {
                    let ver = run.times[forged_at].1;
                    out.violation(
                        &format!("C01 client accept {} ({}) proto={}", opname, cls, proto.name()),
                        &format!("client printed time {:?} (verified flag {:?}) and exit {:?} for a response the reference verifier rejects: {} [{}]", run.times[forged_at].0, ver, run.exit, why, detail),
                        trial_json(&run, Some(forged_at), &opname, &detail),
                    );
                } else if run.exit == Some(0) {
                    out.violation(
                        &format!("C01 client exit-0-without-time {} proto={}", opname, proto.name()),
                        &format!("response fails ({}) and no time was printed, but the client exited 0", why),
                        trial_json(&run, Some(forged_at), &opname, &detail),
                    );
                } else {
                    out.obs("unauthentic_rejected", 1);
                    out.obs(&format!("rejected_exit_{}", run.exit.map(|c| c.to_string()).unwrap_or("signal".into())), 1);
                }
            }
        }
        if out.samples.len() < 4 && t % 7 == 3 {
            out.sample(json!({"operator": opname, "detail": detail, "proto": proto.name(), "key": format!("{:?}", enc), "n": n, "forged_position": forged_at, "reference_verdict": authentic.clone().err().unwrap_or("authentic".into()), "client_exit": run.exit, "times_printed": run.times.len()}));
        }
        if !ctx.time_left() {
            out.note("trial loop cut by wall budget");
            break;
        }
    }
    // a key was GIVEN but in a spelling the client cannot read (or of the wrong length): whatever
    // it does with it, it must not report a response re-signed by another key as good
    if only_op.is_none() {
        let kinds: [(&str, String); 8] = [
            ("base64-unpadded", b64(&pk).trim_end_matches('=').to_string()),
            ("base64url", b64(&pk).replace('+', "-").replace('/', "_")),
            ("hex-0x-prefixed", format!("0x{}", hex(&pk))),
            ("hex-31-bytes", hex(&pk[..31])),
            ("hex-33-bytes", format!("{}00", hex(&pk))),
            ("hex-with-colons", pk.iter().map(|b| format!("{:02x}", b)).collect::<Vec<_>>().join(":")),
            ("base64-of-hex-text", b64(hex(&pk).as_bytes())),
            ("hex-odd-length", hex(&pk)[..63].to_string()),
        ];
        for (ki, (kind, text)) in kinds.iter().enumerate() {
            for proto in [Proto::Classic, Proto::Ietf] {
                if (ki as u64 + ctx.shard) % 2 != 0 && !ctx.thorough {
                    continue;
                }
                // readable after all (e.g. base64url without '-' or '_'): an ordinary keyed run
                let readable = crate::prng::unhex(text).map(|k| k == pk).unwrap_or(false) || *text == b64(&pk);
                let forger = Forger { srv: &srv, evil: &evil, proto, earlier_genuine: vec![] };
                let mut rr = Rng::new(rng.next_u64());
                let rk = format!("rawkey={}", text);
                let res = run_client(ctx, proto, None, Mode::Json, 1, &[&rk], &mut |cr| {
                    let b = batch_for(&mut rr, proto);
                    forger.forge(Forgery::OtherLongTermKeyFullChain, cr, &b, &mut rr).map(|x| x.0)
                });
                let Ok(run) = res else {
                    out.inconclusive("client run failed");
                    continue;
                };
                if run.watchdog {
                    out.inconclusive("client watchdog expired");
                    continue;
                }
                out.obs("unreadable_key_runs", 1);
                out.case(fnv64(format!("rawkey{}{:?}{}", kind, proto, text).as_bytes()), true);
                if readable {
                    out.obs("unreadable_key_kind_was_readable", 1);
                }
                if !run.times.is_empty() || run.exit == Some(0) {
                    out.violation(
                        &format!("C01 client accept OtherLongTermKeyFullChain key-given-as={}", kind),
                        &format!("-k {:?}: the client printed {:?} and exited {:?} for a response signed by a different long-term key", text, run.times, run.exit),
                        trial_json(&run, Some(0), "OtherLongTermKeyFullChain", kind),
                    );
                } else {
                    out.obs(if run.requests.is_empty() { "unreadable_key_refused_at_startup" } else { "unreadable_key_response_rejected" }, 1);
                }
            }
        }
    }
    out.floor("unreadable_key_runs", 4);
    out.floor("unauthentic_responses_delivered", 300);
    out.floor("nonces_seen", 400);
    out.floor("op_OtherLongTermKeyFullChain_classic", 1);
    out.floor("op_OtherLongTermKeyFullChain_ietf", 1);
    out.floor("op_ReplayWithinRun_classic", 1);
    out.floor("op_ReplayAcrossRuns_ietf", 1);
}

// ----------------------------------------------------------------------------------- C03

fn expected_time(proto: Proto, midp: u64) -> String {
    match proto {
        Proto::Classic => format!("T={}.{:09}", midp / 1_000_000, (midp % 1_000_000) * 1000),
        Proto::Ietf => format!("T={}.{:09}", midp, 0),
    }
}

fn civil(secs: u64) -> String {
    civil_i(secs as i64)
}

fn civil_i(secs: i64) -> String {
    // days since epoch -> y/m/d (Howard Hinnant's algorithm)
    let days = secs.div_euclid(86400);
    let rem = secs.rem_euclid(86400);
    let z = days + 719468;
    let era = z.div_euclid(146097);
    let doe = z.rem_euclid(146097);
    let yoe = (doe - doe / 1460 + doe / 36524 - doe / 146096) / 365;
    let y = yoe + era * 400;
    let doy = doe - (365 * yoe + yoe / 4 - yoe / 100);
    let mp = (5 * doy + 2) / 153;
    let d = doy - (153 * mp + 2) / 5 + 1;
    let m = if mp < 10 { mp + 3 } else { mp - 9 };
    let y = if m <= 2 { y + 1 } else { y };
    const MON: [&str; 12] = ["Jan", "Feb", "Mar", "Apr", "May", "Jun", "Jul", "Aug", "Sep", "Oct", "Nov", "Dec"];
    format!("{} {:02} {} {:02}:{:02}:{:02} UTC", MON[(m - 1) as usize], d, y, rem / 3600, rem % 3600 / 60, rem % 60)
}

fn civil_iso(secs: i64) -> String {
    // "Jan 02 2024 03:04:05 UTC" -> "W=2024-01-02T03:04:05"
    let c = civil_i(secs);
    let p: Vec<&str> = c.split_whitespace().collect();
    const MON: [&str; 12] = ["Jan", "Feb", "Mar", "Apr", "May", "Jun", "Jul", "Aug", "Sep", "Oct", "Nov", "Dec"];
    let m = MON.iter().position(|x| *x == p[0]).unwrap() + 1;
    // chrono's %Y gives years beyond 9999 an explicit sign
    let year = if p[2].len() > 4 { format!("+{}", p[2]) } else { format!("{:0>4}", p[2]) };
    format!("W={}-{:02}-{}T{}", year, m, p[1], p[3])
}

/// days since the epoch of the n-th (1-based; 0 = last) Sunday of a month
fn nth_sunday(year: i64, month: i64, n: i64) -> i64 {
    let days_from_civil = |y: i64, m: i64, d: i64| -> i64 {
        let y = if m <= 2 { y - 1 } else { y };
        let era = y.div_euclid(400);
        let yoe = y.rem_euclid(400);
        let mp = (m + 9) % 12;
        let doy = (153 * mp + 2) / 5 + d - 1;
        let doe = yoe * 365 + yoe / 4 - yoe / 100 + doy;
        era * 146097 + doe - 719468
    };
    let first = days_from_civil(year, month, 1);
    // 1970-01-01 was a Thursday (weekday 4 with Sunday = 0)
    let wd = (first + 4).rem_euclid(7);
    let first_sunday = first + (7 - wd) % 7;
    if n > 0 {
        first_sunday + 7 * (n - 1)
    } else {
        let next_first = if month == 12 { days_from_civil(year + 1, 1, 1) } else { days_from_civil(year, month + 1, 1) };
        let mut d = first_sunday;
        while d + 7 < next_first {
            d += 7;
        }
        d
    }
}

/// the local wall-clock rendering of an instant according to the C library (GNU date under TZ):
/// an oracle for local-time output that shares nothing with chrono
fn date_oracle(zone: &str, secs: u64) -> Option<String> {
    let o = Command::new("date").env("TZ", zone).arg("-d").arg(format!("@{}", secs)).arg("+W=%Y-%m-%dT%H:%M:%S").output().ok()?;
    if !o.status.success() {
        return None;
    }
    Some(String::from_utf8_lossy(&o.stdout).trim().to_string())
}

/// honest responses whose midpoints lie around daylight-saving transitions (and anywhere in
/// 1971..2037), printed as local wall-clock time in zones whose offset changes over the year
fn dst_local_time_runs(ctx: &Ctx, out: &mut Out, rng: &mut Rng, srv: &RefServer, evil: &RefServer, pk: &[u8]) {
    if date_oracle("UTC", 0).as_deref() != Some("W=1970-01-01T00:00:00") {
        out.note("GNU date not usable as local-time oracle: DST runs skipped");
        return;
    }
    let runs = ctx.share(640, 6_400);
    for k in 0..runs {
        let zone = *rng.pick(&["America/New_York", "Europe/Berlin", "Australia/Lord_Howe", "America/Santiago", "Europe/London"]);
        let proto = if k % 2 == 0 { Proto::Classic } else { Proto::Ietf };
        let year = rng.range(2008, 2037) as i64;
        // transition instants (UTC) of the current rules of the two best-known zones
        let trans: Vec<i64> = match zone {
            "America/New_York" => vec![nth_sunday(year, 3, 2) * 86400 + 7 * 3600, nth_sunday(year, 11, 1) * 86400 + 6 * 3600],
            "Europe/Berlin" | "Europe/London" => vec![nth_sunday(year, 3, 0) * 86400 + 3600, nth_sunday(year, 10, 0) * 86400 + 3600],
            _ => vec![],
        };
        let n = rng.range(1, 3) as usize;
        let mut batches: Vec<Batch> = Vec::new();
        for _ in 0..n {
            let secs = if !trans.is_empty() && rng.chance(2, 3) {
                (*rng.pick(&trans) + *rng.pick(&[-7200i64, -3601, -3600, -1800, -1, 0, 1, 1799, 1800, 3599, 3600, 3601, 7199, 7200])) as u64
            } else {
                rng.range(31_536_000, 2_145_916_800)
            };
            let midp = if proto == Proto::Classic { secs * 1_000_000 + rng.below(1_000_000) } else { secs };
            batches.push(Batch { size: 1, index: 0, midp, radi: if proto == Proto::Classic { 5_000_000 } else { 5 }, mint: 0, maxt: u64::MAX });
        }
        let forger = Forger { srv, evil, proto, earlier_genuine: vec![] };
        let mut rr = Rng::new(rng.next_u64());
        let enc = *rng.pick(&[KeyEnc::None, KeyEnc::Hex, KeyEnc::B64]);
        let key = if enc == KeyEnc::None { None } else { Some((pk, enc)) };
        let tz = format!("tz={}", zone);
        let res = run_client(ctx, proto, key, Mode::Plain, n, &[&tz, "wall"], &mut |cr| Some(forger.honest(cr, &batches[cr.index], &mut rr).assemble()));
        let Ok(run) = res else {
            out.inconclusive("client run failed");
            continue;
        };
        if run.watchdog || run.requests.len() != n {
            out.inconclusive("client watchdog / missing requests");
            continue;
        }
        out.obs("dst_zone_runs", 1);
        out.obs(&format!("dst_zone_runs_{}", zone), 1);
        out.case(fnv64(format!("dst{}{:?}{}", zone, proto, batches[0].midp).as_bytes()), true);
        let desc = trial_json(&run, None, "dst-local-time", zone);
        if run.exit != Some(0) || run.times.len() != n {
            let panicked = run.stderr.contains("panicked");
            out.violation(
                &format!("C03 client reject honest proto={} origin=reference-responder-dst-zone why={}", proto.name(), if panicked { "panic" } else { "no-panic" }),
                &format!("TZ={}: honest response(s) with midpoints {:?} not accepted: exit {:?}, {} of {} times printed; {}", zone, batches.iter().map(|b| b.midp).collect::<Vec<_>>(), run.exit, run.times.len(), n, run.stderr.lines().filter(|l| l.contains("panicked") || l.contains("called `")).take(2).collect::<Vec<_>>().join(" / ")),
                desc,
            );
            continue;
        }
        for (i, (t, _)) in run.times.iter().enumerate() {
            let secs = if proto == Proto::Classic { batches[i].midp / 1_000_000 } else { batches[i].midp };
            let Some(want) = date_oracle(zone, secs) else {
                out.inconclusive("date oracle failed");
                continue;
            };
            out.obs("dst_times_compared", 1);
            if trans.iter().any(|tr| (secs as i64 - tr).abs() <= 7200) {
                out.obs("dst_times_within_2h_of_a_transition", 1);
            }
            if *t != want {
                out.violation(
                    &format!("C03 client prints-wrong-time proto={} origin=reference-responder-dst-zone", proto.name()),
                    &format!("TZ={}: signed midpoint {} s should print as {:?} (C library), client printed {:?}", zone, secs, want, t),
                    trial_json(&run, None, "dst-local-time", zone),
                );
            }
        }
    }
}

pub fn run_c03(ctx: &Ctx, out: &mut Out) {
    let mut rng = ctx.rng("C03");
    if ctx.replay.is_some() {
        out.case(1, true);
        out.case(2, true);
        out.note("C03 replay re-runs the monitor");
    }
    let srv = RefServer::new(&mut rng);
    let pk = srv.public();
    let evil = RefServer::new(&mut rng);
    // (a) honest reference responder
    let secs_grid: [u64; 12] = [0, 1, 59, 86_399, 86_400, (1 << 31) - 1, 1 << 31, (1u64 << 32) - 1, 1 << 32, 7_258_118_400, 253_402_300_799, 1_700_000_000];
    let ntrials = ctx.share(16_000, 96_000);
    for t in 0..ntrials {
        let gi = t * ctx.nshards + ctx.shard;
        let proto = if gi % 2 == 0 { Proto::Classic } else { Proto::Ietf };
        let enc = match (gi / 2) % 5 {
            0 => KeyEnc::None,
            1 => KeyEnc::Hex,
            2 => KeyEnc::B64,
            3 => KeyEnc::HexUpper,
            _ => KeyEnc::HexMixed,
        };
        let mode = match (gi / 6) % 3 {
            0 => Mode::Plain,
            1 => Mode::Json,
            _ => Mode::Verbose,
        };
        let default_format = mode == Mode::Plain && (gi / 18) % 4 == 0;
        // a share of the runs render local time in a zone with a fixed offset (no -z): the instant
        // printed must be the same instant
        const ZONES: [(&str, i64); 3] = [("tz=Asia/Tokyo", 32_400), ("tz=America/Phoenix", -25_200), ("tz=Asia/Kolkata", 19_800)];
        let zone: Option<(&str, i64)> = if !default_format && gi % 5 == 3 { Some(ZONES[((gi / 5) % 3) as usize]) } else { None };
        let wall = zone.is_some() && mode == Mode::Plain;
        let n = if rng.chance(1, 5) { rng.range(2, 16) as usize } else { 1 };
        // index 0..63, depth 0..6
        let size = match (gi / 6) % 8 {
            0 => 1,
            1 => 2,
            2 => rng.range(3, 4),
            3 => rng.range(5, 8),
            4 => rng.range(9, 16),
            5 => rng.range(17, 32),
            _ => rng.range(33, 64),
        } as usize;
        let mut batches: Vec<Batch> = Vec::new();
        for _ in 0..n {
            let secs = if rng.chance(1, 2) { *rng.pick(&secs_grid) } else { rng.below(253_402_300_800) };
            let midp = match proto {
                Proto::Classic => secs * 1_000_000 + *rng.pick(&[0u64, 1, 999, 1000, 999_999, 500_000]).min(&999_999),
                Proto::Ietf => secs,
            };
            let index = match rng.below(3) {
                0 => 0,
                1 => size - 1,
                _ => rng.usize_below(size),
            };
            // delegation windows: unbounded, or tight with the midpoint on either (inclusive) edge
            let mint = *rng.pick(&[0u64, 0, midp, midp.saturating_sub(1), midp / 2]);
            let maxt = *rng.pick(&[u64::MAX, u64::MAX, midp, midp.saturating_add(1), midp.saturating_mul(2)]);
            if mint == midp || maxt == midp {
                out.obs("honest_midpoint_on_window_edge", 1);
            }
            batches.push(Batch { size, index, midp, radi: if proto == Proto::Classic { 5_000_000 } else { 5 }, mint, maxt });
        }
        let forger = Forger { srv: &srv, evil: &evil, proto, earlier_genuine: vec![] };
        let mut rr = Rng::new(rng.next_u64());
        let mut ref_ok = true;
        let key = if enc == KeyEnc::None { None } else { Some((&pk[..], enc)) };
        let mut extra: Vec<&str> = if default_format { vec!["default-format"] } else { vec![] };
        if let Some((z, _)) = zone {
            extra.push(z);
            out.obs("local_time_runs", 1);
        }
        if wall {
            extra.push("wall");
        }
        if rng.chance(1, 5) {
            extra.push("dump");
            out.obs("runs_with_dump_option", 1);
        }
        if rng.chance(1, 5) {
            extra.push("outfiles");
            out.obs("runs_with_output_files", 1);
        }
        if rng.chance(1, 6) {
            extra.push("v6");
            out.obs("runs_over_ipv6_loopback", 1);
        }
        let res = run_client(ctx, proto, key, mode, n, &extra, &mut |cr| {
            let d = forger.honest(cr, &batches[cr.index], &mut rr).assemble();
            let view = ReqView { proto, packet: cr.packet, nonce: cr.nonce.clone() };
            if verify_response(&view, &d, &pk, Opts { strict: false }).is_err() {
                ref_ok = false;
            }
            Some(d)
        });
        let run = match res {
            Ok(r) => r,
            Err(e) => {
                out.inconclusive(&format!("client run failed: {}", e));
                continue;
            }
        };
        out.obs("client_runs", 1);
        if run.watchdog || run.requests.len() != n {
            out.inconclusive("client watchdog / missing requests");
            continue;
        }
        if !ref_ok {
            out.inconclusive("reference responder output rejected by reference verifier");
            continue;
        }
        out.case(fnv64(format!("{:?}{:?}{:?}{}{}", proto, enc, mode, size, gi).as_bytes()), true);
        out.obs(&format!("honest_{}_key{:?}", proto.name(), enc), 1);
        out.obs(&format!("batch_depth_{}", (size as f64).log2().ceil() as u32), 1);
        let wall_off = if wall { zone.map(|z| z.1) } else { None };
        check_honest_run(out, &run, proto, enc != KeyEnc::None, &batches.iter().map(|b| b.midp).collect::<Vec<_>>(), default_format, wall_off, if zone.is_some() { "reference-responder-localtime" } else { "reference-responder" });
        if out.samples.len() < 3 && t % 5 == 1 {
            out.sample(json!({"proto": proto.name(), "key": format!("{:?}", enc), "mode": format!("{:?}", mode), "batch_size": size, "index": batches[0].index, "midp": batches[0].midp, "printed": run.times.get(0).map(|t| t.0.clone()), "exit": run.exit}));
        }
        if !ctx.time_left() {
            out.note("trial loop cut by wall budget");
            break;
        }
    }
    // (a2) local wall-clock output in zones with daylight-saving time, judged by the C library
    dst_local_time_runs(ctx, out, &mut rng, &srv, &evil, &pk);
    // (b) the real server binary, client with -n 1..64 so replies come from real batches
    real_server_part(ctx, out, &mut rng);
    out.floor("honest_classic_keyNone", 20);
    out.floor("honest_ietf_keyHex", 20);
    out.floor("honest_ietf_keyB64", 20);
    out.floor("times_compared", 500);
    out.floor("local_time_runs", 50);
    if date_oracle("UTC", 0).is_some() {
        out.floor("dst_times_compared", 100);
        out.floor("dst_times_within_2h_of_a_transition", 20);
    }
    out.floor("real_server_client_runs", 8);
    out.floor("real_server_times_checked", 100);
}

fn check_honest_run(out: &mut Out, run: &ClientRun, proto: Proto, keyed: bool, midps: &[u64], default_format: bool, wall_off: Option<i64>, origin: &str) {
    let n = midps.len();
    let pj = |what: &str| trial_json(run, None, what, origin);
    if run.exit != Some(0) || run.times.len() != n {
        let why = run.stderr.lines().find(|l| l.contains("panicked")).map(|_| {
            let msg = run.stderr.lines().skip_while(|l| !l.contains("panicked")).nth(1).unwrap_or("").trim().to_string();
            let site = run.stderr.lines().find(|l| l.contains("panicked at")).and_then(|l| l.split("panicked at ").nth(1)).unwrap_or("").trim_end_matches(':').to_string();
            format!("{} @ {}", msg, site)
        });
        let cls = match &why {
            Some(w) if w.contains("Nonce is not present") => "merkle-check-fails",
            Some(w) if w.contains("assertion") => "assertion",
            Some(_) => "panic",
            None => "no-panic",
        };
        out.violation(
            &format!("C03 client reject honest proto={} origin={} why={}", proto.name(), origin, cls),
            &format!("honest response(s) not accepted: exit {:?}, {} of {} times printed; {}", run.exit, run.times.len(), n, why.unwrap_or_default()),
            pj("reject"),
        );
        return;
    }
    out.obs("honest_runs_accepted", 1);
    for (i, (t, ver)) in run.times.iter().enumerate() {
        out.obs("times_compared", 1);
        let want = if let Some(off) = wall_off {
            let secs = if proto == Proto::Classic { midps[i] / 1_000_000 } else { midps[i] };
            civil_iso(secs as i64 + off)
        } else if default_format {
            let secs = if proto == Proto::Classic { midps[i] / 1_000_000 } else { midps[i] };
            civil(secs)
        } else {
            expected_time(proto, midps[i])
        };
        if *t != want {
            out.violation(&format!("C03 client prints-wrong-time proto={} origin={}", proto.name(), origin), &format!("signed midpoint {} should print as {:?}, client printed {:?}", midps[i], want, t), pj("time"));
        }
        if let Some(v) = ver {
            out.obs("verified_flags_compared", 1);
            if *v != keyed {
                out.violation(&format!("C03 client verified-flag wrong keyed={}", keyed), &format!("verified flag {} with key supplied = {}", v, keyed), pj("flag"));
            }
        }
    }
}

fn real_server_part(ctx: &Ctx, out: &mut Out, rng: &mut Rng) {
    use crate::procs::*;
    let rounds = if ctx.thorough { 12 } else { 2 };
    for k in 0..rounds {
        let seed = rng.bytes(32);
        let pk = RefKey::from_seed(&seed).public();
        let mut started = None;
        for _ in 0..3 {
            let mut cfg = SrvCfg::new(free_port(false), &seed);
            cfg.num_workers = Some(*rng.pick(&[1u32, 2, 4]));
            cfg.batch_size = Some(*rng.pick(&[1u32, 8, 64]));
            // every other server listens on all local addresses and is addressed by the client as
            // 127.0.0.2: its replies then come from another source address than the one written to
            cfg.any_iface = k % 2 == 1;
            match spawn_server(&ctx.bins, &cfg, &ctx.scratch, &format!("c03srv{}", k), None) {
                Ok(mut sp) => match sp.wait_ready(&pk, Duration::from_secs(10)) {
                    Ok(_) => {
                        started = Some(sp);
                        break;
                    }
                    Err(_) => continue,
                },
                Err(_) => continue,
            }
        }
        let Some(mut sp) = started else {
            out.inconclusive("real server did not start");
            continue;
        };
        let mut timeouts_here = 0;
        // neighbours: other clients of the same server, one of them on a well-known source port,
        // keep sending while the project's client runs, so that its requests share batches with theirs
        let nb_stop = std::sync::Arc::new(std::sync::atomic::AtomicBool::new(false));
        let neighbours: Vec<_> = (0..2u64)
            .map(|i| {
                let stop = nb_stop.clone();
                let port = sp.cfg.port;
                let s0 = rng.next_u64();
                std::thread::spawn(move || {
                    let mut r = Rng::new(s0);
                    let sock = if i == 0 { crate::inproc::client_socket_low_port() } else { None }.unwrap_or_else(|| std::net::UdpSocket::bind("127.0.0.1:0").unwrap());
                    let _ = sock.set_nonblocking(true);
                    let addr: std::net::SocketAddr = format!("127.0.0.1:{}", port).parse().unwrap();
                    let mut buf = vec![0u8; 4096];
                    let mut n = 0u64;
                    while !stop.load(std::sync::atomic::Ordering::Relaxed) {
                        let p = if r.chance(1, 2) { Proto::Classic } else { Proto::Ietf };
                        let (pkt, _) = make_request(&mut r, p, None);
                        let _ = sock.send_to(&pkt, addr);
                        n += 1;
                        while sock.recv_from(&mut buf).is_ok() {}
                        std::thread::sleep(Duration::from_micros(150 + r.below(300)));
                    }
                    n
                })
            })
            .collect();
        for proto in [Proto::Classic, Proto::Ietf] {
            for (enc, n) in [(KeyEnc::Hex, 64usize), (KeyEnc::None, 7), (KeyEnc::B64, rng.range(1, 64) as usize), (KeyEnc::HexUpper, 3)] {
                if sp.cfg.any_iface {
                    out.obs("real_server_client_runs_addressed_as_127.0.0.2", 1);
                }
                let mut args: Vec<String> = vec![if sp.cfg.any_iface { "127.0.0.2".into() } else { "127.0.0.1".into() }, sp.cfg.port.to_string(), "-p".into(), if proto == Proto::Classic { "0".into() } else { "13".into() }, "-z".into(), "-t".into(), "4".into(), "-n".into(), n.to_string(), "-f".into(), "T=%s.%f".into(), "-j".into()];
                match enc {
                    KeyEnc::Hex => {
                        args.push("-k".into());
                        args.push(hex(&pk));
                    }
                    KeyEnc::B64 => {
                        args.push("-k".into());
                        args.push(b64(&pk));
                    }
                    KeyEnc::HexUpper | KeyEnc::HexMixed => {
                        args.push("-k".into());
                        args.push(hex(&pk).to_uppercase());
                    }
                    KeyEnc::None => {}
                }
                let t_before = std::time::SystemTime::now().duration_since(std::time::UNIX_EPOCH).unwrap();
                let mut cmd = Command::new(ctx.bins.join("roughenough-client"));
                cmd.args(&args);
                let Ok((code, so, se, wd)) = run_with_timeout(cmd, Duration::from_secs(30)) else {
                    out.inconclusive("client spawn failed");
                    continue;
                };
                let t_after = std::time::SystemTime::now().duration_since(std::time::UNIX_EPOCH).unwrap();
                if wd {
                    out.inconclusive("client watchdog expired");
                    continue;
                }
                let stdout = String::from_utf8_lossy(&so).to_string();
                let stderr = String::from_utf8_lossy(&se).to_string();
                let times = parse_times(&stdout, &stderr, Mode::Json);
                out.obs("real_server_client_runs", 1);
                out.case(fnv64(format!("real{}{:?}{:?}{}", k, proto, enc, n).as_bytes()), true);
                let desc = json!({"kind":"real-server-client","args":args,"exit":code,"stdout":stdout.chars().take(500).collect::<String>(),"stderr":stderr.chars().take(800).collect::<String>()});
                if stderr.contains("Timeout waiting for response") {
                    // a lost datagram, or the client never sees what the server sends? Ask the server
                    // the same way (same destination address, plain unconnected socket): if it
                    // answers us, twice, the replies exist and the client is the one not accepting
                    let host = if sp.cfg.any_iface { "127.0.0.2" } else { "127.0.0.1" };
                    let mut answered = 0;
                    for _ in 0..2 {
                        let s = std::net::UdpSocket::bind("0.0.0.0:0").unwrap();
                        s.set_read_timeout(Some(Duration::from_millis(1500))).unwrap();
                        let (pkt, nonce) = make_request(rng, proto, None);
                        let _ = s.send_to(&pkt, format!("{}:{}", host, sp.cfg.port));
                        let mut b = vec![0u8; 4096];
                        if let Ok((l, _)) = s.recv_from(&mut b) {
                            let view = ReqView { proto, packet: &pkt, nonce };
                            if verify_response(&view, &b[..l], &pk, Opts { strict: true }).is_ok() {
                                answered += 1;
                            }
                        }
                    }
                    timeouts_here += 1;
                    if answered == 2 && timeouts_here >= 2 {
                        out.violation(
                            &format!("C03 client reject honest proto={} origin=real-server why=timeout-although-the-server-answers", proto.name()),
                            &format!("the client (addressing the server as {}) gave up waiting {} times in a row-of-runs, while the server answers plain requests to the same address with verifying replies", host, timeouts_here),
                            desc.clone(),
                        );
                    } else {
                        out.inconclusive("client timed out waiting for the real server (datagram loss)");
                    }
                    continue;
                }
                if code != Some(0) || times.len() != n {
                    let cls = if stderr.contains("Nonce is not present") { "merkle-check-fails" } else { "other" };
                    out.violation(
                        &format!("C03 client reject honest proto={} origin=real-server why={}", proto.name(), cls),
                        &format!("client -n {} against the real server: exit {:?}, {} times printed; {}", n, code, times.len(), stderr.lines().filter(|l| l.contains("panicked") || l.contains("assert") || l.contains("Nonce")).take(3).collect::<Vec<_>>().join(" / ")),
                        desc,
                    );
                    continue;
                }
                for (t, ver) in &times {
                    out.obs("real_server_times_checked", 1);
                    // printed time must be the signed midpoint: it has to lie within the harness's clock bracket
                    let secs: f64 = t.trim_start_matches("T=").parse().unwrap_or(-1.0);
                    let lo = t_before.as_secs_f64().floor() - if proto == Proto::Ietf { 0.0 } else { 0.000001 };
                    let hi = t_after.as_secs_f64() + 0.000001;
                    if secs < lo || secs > hi {
                        out.violation(&format!("C03 client prints-wrong-time proto={} origin=real-server", proto.name()), &format!("printed {} outside [{}, {}]", t, lo, hi), desc.clone());
                    }
                    if *ver != Some(enc != KeyEnc::None) {
                        out.violation(&format!("C03 client verified-flag wrong keyed={}", enc != KeyEnc::None), &format!("verified flag {:?}", ver), desc.clone());
                    }
                }
            }
        }
        nb_stop.store(true, std::sync::atomic::Ordering::Relaxed);
        for h in neighbours {
            out.obs("real_server_neighbour_requests", h.join().unwrap_or(0) as i64);
        }
        sp.signal(libc::SIGTERM);
        let _ = sp.wait_exit(Duration::from_secs(5));
    }
}
