//! rtmiri — the reduced workloads that run under Miri (undefined-behaviour interpreter).
//! Only pure-Rust paths: codec, Display, request parsing, statistics, signer/verifier.
//! Nothing here calls into ring (Miri cannot cross FFI).
#![allow(dead_code)]

#[path = "codecgen.rs"]
mod codecgen;
#[path = "dgen.rs"]
mod dgen;
#[path = "prng.rs"]
mod prng;
mod refimpl {
    #[path = "../refimpl/codec.rs"]
    pub mod codec;
    #[path = "../refimpl/crypto.rs"]
    pub mod crypto;
    #[path = "../refimpl/req.rs"]
    pub mod req;
}

use std::panic::{catch_unwind, AssertUnwindSafe};

use prng::Rng;
use refimpl::codec::RefMsg;
use roughenough::stats::{PerClientStats, ServerStats};
use roughenough::RtMessage;

fn arg(args: &[String], name: &str) -> Option<String> {
    args.iter().position(|a| a == name).and_then(|i| args.get(i + 1).cloned())
}

fn main() {
    let args: Vec<String> = std::env::args().collect();
    let what = args.get(1).cloned().unwrap_or_default();
    let seed: u64 = arg(&args, "--seed").and_then(|s| s.parse().ok()).unwrap_or(1);
    let shard: u64 = arg(&args, "--shard").and_then(|s| s.parse().ok()).unwrap_or(0);
    let n: u64 = arg(&args, "--cases").and_then(|s| s.parse().ok()).unwrap_or(100);
    std::panic::set_hook(Box::new(|_| {}));
    let mut rng = Rng::derive(seed, &what, shard);
    let (mut cases, mut panics, mut mismatches, mut accepted) = (0u64, 0u64, 0u64, 0u64);
    match what.as_str() {
        "codec" => {
            let alpha = codecgen::alphabet(true);
            let total = codecgen::enum_total(alpha.len() as u64, 4);
            for k in 0..n {
                let b = if k % 3 == 0 {
                    codecgen::words_to_bytes(&codecgen::enum_nth(&alpha, 4, rng.below(total)))
                } else if k % 3 == 1 {
                    let m = codecgen::random_valid(&mut rng, 128, true);
                    codecgen::mutate(&mut rng, &m.encode(), m.fields.len()).bytes
                } else {
                    let mut b = codecgen::random_bytes(&mut rng);
                    b.truncate(2048);
                    b
                };
                cases += 1;
                let r = catch_unwind(AssertUnwindSafe(|| RtMessage::from_bytes(&b)));
                match r {
                    Err(_) => panics += 1,
                    Ok(real) => {
                        let refr = RefMsg::decode(&b);
                        if real.is_ok() != refr.is_ok() {
                            mismatches += 1;
                        }
                        if let Ok(m) = real {
                            accepted += 1;
                            if catch_unwind(AssertUnwindSafe(|| format!("{}", m))).is_err() {
                                panics += 1;
                            }
                            if !m.tags().is_empty() {
                                if m.encode().ok().as_deref() != Some(&b[..]) {
                                    mismatches += 1;
                                }
                            }
                        }
                    }
                }
            }
        }
        "request" => {
            let srv = rng.bytes(32);
            for _ in 0..n {
                let mut d = dgen::hostile(&mut rng, &srv).data;
                d.truncate(2000);
                cases += 1;
                let mut buf = vec![0u8; 65536];
                buf[..d.len()].copy_from_slice(&d);
                let r = catch_unwind(AssertUnwindSafe(|| roughenough::request::nonce_from_request(&buf, d.len(), &srv)));
                match r {
                    Err(_) => panics += 1,
                    Ok(res) => {
                        let (exp, _) = refimpl::req::expectation(&d, &srv);
                        if res.is_ok() {
                            accepted += 1;
                        }
                        if (res.is_ok() && exp == refimpl::req::Expect::MustNot) || (res.is_err() && exp == refimpl::req::Expect::Must) {
                            mismatches += 1;
                        }
                    }
                }
            }
        }
        "stats" => {
            let pool: Vec<std::net::IpAddr> = (0..6u8).map(|i| std::net::IpAddr::V4(std::net::Ipv4Addr::new(10, 0, 0, i))).collect();
            for _ in 0..n {
                let limit = rng.range(1, 4) as usize;
                let mut s = PerClientStats::verif_with_limit(limit);
                let mut events = 0u64;
                for _ in 0..rng.range(1, 40) {
                    let a = &pool[rng.usize_below(pool.len())];
                    match rng.below(8) {
                        0 => s.add_ietf_request(a),
                        1 => s.add_classic_request(a),
                        2 => s.add_invalid_request(a, &roughenough::Error::RequestTooShort),
                        3 => s.add_failed_send_attempt(a),
                        4 => s.add_retried_send_attempt(a),
                        5 => s.add_health_check(a),
                        6 => s.add_rfc_response(a, 100),
                        _ => s.add_classic_response(a, 200),
                    }
                    events += 1;
                }
                cases += 1;
                let counted = s.total_valid_requests() + s.total_invalid_requests() + s.total_health_checks() + s.total_responses_sent() + s.total_failed_send_attempts() + s.total_retried_send_attempts();
                if counted + s.num_overflows() != events || s.total_unique_clients() as usize > limit {
                    mismatches += 1;
                }
                s.clear();
            }
        }
        "sign" => {
            use ed25519_dalek::Signer;
            for _ in 0..n {
                let seed = rng.bytes(32);
                let mut signer = roughenough::sign::MsgSigner::from_seed(&seed);
                let mut prev = Vec::new();
                for _ in 0..2 {
                    let msg = rng.rbytes(0, 200);
                    for c in msg.chunks(7) {
                        signer.update(c);
                    }
                    let sig = signer.sign();
                    let sk = ed25519_dalek::SigningKey::from_bytes(seed.as_slice().try_into().unwrap());
                    if sig != sk.sign(&msg).to_bytes().to_vec() {
                        mismatches += 1;
                    }
                    let mut v = roughenough::sign::MsgVerifier::new(&signer.public_key_bytes());
                    v.update(&msg);
                    if !v.verify(&sig) {
                        mismatches += 1;
                    }
                    prev = msg;
                }
                let _ = prev;
                cases += 1;
            }
        }
        _ => {
            eprintln!("unknown workload");
            std::process::exit(2);
        }
    }
    println!("{{\"workload\":\"{}\",\"cases\":{},\"accepted\":{},\"panics\":{},\"mismatches\":{}}}", what, cases, accepted, panics, mismatches);
}
