//! C08 — no datagram sequence can crash or wedge a serving worker, at any log verbosity.
//! C20 — (in-process part) nothing logged or sent contains the seed or private scalar.

use serde_json::json;

use crate::c09::round_replay;
use crate::driver::*;
use crate::inproc::{install_logger, log_counts, take_logs, HConfig};
use crate::out::{Ctx, Out};
use crate::prng::{fnv64, hex, Rng};
use crate::refimpl::crypto::clamped_scalar;

const LEVELS: [log::LevelFilter; 6] = [log::LevelFilter::Off, log::LevelFilter::Error, log::LevelFilter::Warn, log::LevelFilter::Info, log::LevelFilter::Debug, log::LevelFilter::Trace];

fn gen_sequence(rng: &mut Rng, srv: &[u8], len: usize) -> Vec<(usize, Vec<u8>)> {
    let nsocks = 8;
    // one sequence in six carries a solid run of 33..=64 valid requests of ONE protocol (the
    // deepest proof paths a batch can need), with a few hostile datagrams before and after
    if len >= 8 && rng.chance(1, 6) {
        let classic = rng.chance(1, 2);
        let run = rng.range(33, 64) as usize;
        let mut v: Vec<(usize, Vec<u8>)> = Vec::new();
        for _ in 0..rng.below(3) {
            v.push((rng.usize_below(nsocks), hostile(rng, srv).data));
        }
        for _ in 0..run {
            let d = if classic { valid_classic(rng).data } else { valid_ietf(rng, Some(srv)).data };
            v.push((rng.usize_below(nsocks), d));
        }
        for _ in 0..rng.below(3) {
            v.push((rng.usize_below(nsocks), hostile(rng, srv).data));
        }
        return v;
    }
    (0..len)
        .map(|_| {
            let s = rng.usize_below(nsocks);
            let d = match rng.below(5) {
                0 => valid_classic(rng).data,
                1 => valid_ietf(rng, Some(srv)).data,
                _ => hostile(rng, srv).data,
            };
            // 1 in 50: the datagram arrives with UDP source port 0 (the reply to it cannot be sent)
            let s = if rng.chance(1, 50) { SPOOF_PORT0 } else { s };
            (s, d)
        })
        .collect()
}

/// all encodings of a secret that must never appear
pub fn needles(name: &str, secret: &[u8]) -> Vec<(String, Vec<u8>)> {
    let mut v = Vec::new();
    v.push((format!("{}-raw", name), secret.to_vec()));
    let h = hex(secret);
    v.push((format!("{}-hex", name), h.clone().into_bytes()));
    v.push((format!("{}-HEX", name), h.to_uppercase().into_bytes()));
    let b = crate::out::b64(secret);
    let nopad = b.trim_end_matches('=').to_string();
    v.push((format!("{}-base64", name), nopad.clone().into_bytes()));
    let url: String = nopad.chars().map(|c| if c == '+' { '-' } else if c == '/' { '_' } else { c }).collect();
    v.push((format!("{}-base64url", name), url.into_bytes()));
    // halves as well: a partial leak is a leak
    v.push((format!("{}-raw-first-half", name), secret[..16].to_vec()));
    v.push((format!("{}-raw-second-half", name), secret[16..].to_vec()));
    v.push((format!("{}-hex-first-half", name), h[..32].as_bytes().to_vec()));
    v.push((format!("{}-hex-second-half", name), h[32..].as_bytes().to_vec()));
    // Debug formatting of a byte slice: "[163, 32, 73, ...]"
    let dbg = format!("{:?}", secret);
    v.push((format!("{}-debug-list", name), dbg[1..dbg.len() - 1].as_bytes().to_vec()));
    v
}

pub fn scan(out: &mut Out, hay: &[u8], needles: &[(String, Vec<u8>)], where_: &str, replay: &dyn Fn() -> serde_json::Value) {
    for (name, n) in needles {
        if contains(hay, n) {
            out.violation(
                &format!("C20 leak {} in={}", name, where_),
                &format!("{} contains the {}: ...{}...", where_, name, String::from_utf8_lossy(&hay[..hay.len().min(160)])),
                replay(),
            );
        }
    }
}

pub fn run(ctx: &Ctx, out: &mut Out, prop: &str) {
    let c20 = prop == "C20";
    let mut rng = ctx.rng(prop);
    let level = if c20 {
        log::LevelFilter::Trace
    } else if ctx.mode == "asan" {
        [log::LevelFilter::Debug, log::LevelFilter::Trace][(ctx.shard % 2) as usize]
    } else {
        LEVELS[(ctx.shard % 6) as usize]
    };
    install_logger(level, c20);
    if let Some(r) = &ctx.replay {
        let lv = r["log_level"].as_str().and_then(|s| s.parse::<log::LevelFilter>().ok()).unwrap_or(log::LevelFilter::Trace);
        install_logger(lv, false);
        crate::c09::replay_history(out, prop, r);
        return;
    }
    let nseq = if c20 { ctx.share(160, 2_000) } else { ctx.share(2_400, 48_000) };
    let before = log_counts();
    for i in 0..nseq {
        let gi = i * ctx.nshards + ctx.shard;
        let seed = rng.bytes(32);
        let mut cfg = HConfig::new(&seed);
        // boundary values half of the time, the whole documented range otherwise
        cfg.batch_size = if rng.chance(1, 2) { *rng.pick(&[1u8, 2, 7, 63, 64]) } else { rng.range(1, 64) as u8 };
        cfg.fault_percentage = if rng.chance(1, 2) { *rng.pick(&[0u8, 1, 25, 50]) } else { rng.range(0, 50) as u8 };
        // optional features on a share of the servers: per-client statistics with a fast status
        // timer, and a health-check listener (never connected to here)
        let stats_server = gi % 16 == 3;
        if stats_server {
            cfg.client_stats = true;
            cfg.status_interval = std::time::Duration::from_secs(1);
            // as small as the real binary's queue for one worker; nobody drains it here, so the
            // worker's own status timer (every 100 ms) meets a full queue after two ticks
            cfg.queue_cap = 2;
            out.obs("servers_with_client_stats", 1);
        }
        if gi % 8 == 6 {
            cfg.health_check_port = Some(crate::procs::free_port(true));
            out.obs("servers_with_health_port", 1);
        }
        let Ok(mut d) = Driver::new(cfg.clone(), 8) else {
            out.inconclusive("server start failed");
            continue;
        };
        let srv = d.srv_value.clone();
        let nd = needles("seed", &seed).into_iter().chain(needles("scalar", &clamped_scalar(&seed))).collect::<Vec<_>>();
        // several sequences on the same server (it must keep working)
        let nrounds = if c20 { 6 } else if stats_server { 6 } else { rng.range(1, 4) as usize };
        let mut rounds: Vec<Vec<(usize, Vec<u8>)>> = Vec::new();
        let mut alive = true;
        for _ in 0..nrounds {
            let len = match rng.below(4) {
                0 => rng.range(1, 4),
                1 => rng.range(1, 200),
                _ => rng.range(1, 40),
            } as usize;
            let sends = gen_sequence(&mut rng, &srv, len);
            if stats_server && !c20 {
                // let a status-timer tick fall between the bursts
                std::thread::sleep(std::time::Duration::from_millis(110));
                out.obs("timer_ticks_awaited_between_sequences", 1);
            }
            rounds.push(sends.clone());
            // with fault injection off every valid request of the sequence must be answered too,
            // not only the sentinel after it
            let strict = !c20 && cfg.fault_percentage == 0;
            let r = d.round(sends, strict);
            let mut rj = round_replay(&cfg, &rounds);
            rj["log_level"] = json!(level.to_string());
            let rp = || rj.clone();
            out.obs("sequences", 1);
            out.obs("datagrams_sent", r.sent.len() as i64);
            out.obs("replies_received", r.replies.len() as i64);
            if c20 {
                for rep in &r.replies {
                    out.obs("datagrams_scanned", 1);
                    scan(out, &rep.data, &nd, "datagram", &rp);
                }
                for l in take_logs() {
                    out.obs("log_records_scanned", 1);
                    out.obs(&format!("log_records_{}", l.level), 1);
                    scan(out, l.msg.as_bytes(), &nd, &format!("log-{}", l.level), &rp);
                }
            }
            if let Some(p) = &r.panic {
                alive = false;
                if !c20 {
                    let wedged = p.starts_with("WEDGED");
                    let lvl_class = if level >= log::LevelFilter::Debug { "level>=Debug" } else { "level<Debug" };
                    out.violation(
                        &format!("C08 server {} {} {}", if wedged { "wedged" } else { "panic" }, crate::c05::panic_site(p), lvl_class),
                        &format!("log level {}, batch_size {}, fault {}: {}", level, cfg.batch_size, cfg.fault_percentage, p),
                        rp(),
                    );
                } else {
                    out.inconclusive("server panicked (C08's verdict)");
                }
                break;
            }
            if strict && r.panic.is_none() && !r.drops_moved {
                let mut answered = vec![false; r.sent.len()];
                for rep in &r.replies {
                    if let Some(i) = rep.matched {
                        answered[i] = true;
                    }
                }
                let missing = r.sent.iter().enumerate().filter(|(i, s)| s.expect == crate::refimpl::req::Expect::Must && !answered[*i]).count();
                out.obs("valid_requests_in_sequences", r.sent.iter().filter(|s| s.expect == crate::refimpl::req::Expect::Must).count() as i64);
                if missing > 0 || r.late_replies > 0 {
                    out.violation(
                        &format!("C08 valid-requests-unanswered-after-hostile-datagrams{}", if r.late_replies > 0 { " (stranded until further traffic)" } else { "" }),
                        &format!("{} valid requests of the sequence got no correct reply ({} replies arrived only after later traffic); log level {}", missing, r.late_replies, level),
                        rp(),
                    );
                }
            }
            if !c20 {
                if r.sentinel_verified {
                    out.obs("sentinels_answered_correctly", 1);
                } else if r.drops_moved {
                    out.inconclusive("kernel drop counter moved");
                } else {
                    out.violation(
                        &format!("C08 sentinel {}", if r.sentinel_replies == 0 { "unanswered" } else { "answered-incorrectly" }),
                        &format!("after the sequence a valid request was {} (log level {}, fault {})", if r.sentinel_replies == 0 { "not answered" } else { "answered only with replies that do not verify" }, level, cfg.fault_percentage),
                        rp(),
                    );
                }
            }
        }
        let _ = alive;
        out.case(fnv64(&seed) ^ gi, true);
        if out.samples.len() < 2 {
            out.sample(json!({"log_level": level.to_string(), "batch_size": cfg.batch_size, "fault_percentage": cfg.fault_percentage, "rounds": rounds.iter().map(|r| r.len()).collect::<Vec<_>>()}));
        }
        if !ctx.time_left() {
            out.note("sequence loop cut by wall budget");
            break;
        }
    }
    if c20 {
        real_server_outputs(ctx, out, &mut rng);
        config_loading_under_trace(ctx, out, &mut rng);
    }
    if !c20 && ctx.shard % 4 == 0 {
        for _ in 0..(if ctx.thorough { 6 } else { 2 }) {
            accept_fault_scenario(out, &mut rng);
        }
    }
    let after = log_counts();
    for (i, name) in ["", "error", "warn", "info", "debug", "trace"].iter().enumerate() {
        if i > 0 {
            out.obs(&format!("log_records_emitted_{}", name), (after[i] - before[i]) as i64);
        }
    }
    out.obs(&format!("shards_at_level_{}", level), 1);
    if c20 {
        out.floor("real_server_outputs_scanned", 8);
        out.floor("config_loads_scanned", 20);
        out.floor("real_server_failing_startups_scanned", 4);
        out.floor("log_records_scanned", 1_000);
        out.floor("datagrams_scanned", 500);
    } else {
        out.floor("sequences", 300);
        out.floor("sentinels_answered_correctly", 200);
        out.floor("log_records_emitted_debug", 1_000);
        if ctx.mode != "asan" {
            for l in LEVELS {
                out.floor(&format!("shards_at_level_{}", l), 1);
            }
        }
    }
}


/// C20, real binary: everything the process prints, over both configuration sources,
/// including start-ups that fail on *other* settings (their error paths print configuration).
fn real_server_outputs(ctx: &Ctx, out: &mut Out, rng: &mut Rng) {
    use crate::procs::*;
    use crate::refimpl::crypto::{Proto, RefKey};
    use std::time::Duration;
    // seeds that appear in the project's own documentation and examples (people do run servers
    // with them): every 64-hex-digit string found in README.md, doc/, example.cfg and src/config
    let mut doc_seeds: Vec<Vec<u8>> = Vec::new();
    {
        let mut files: Vec<std::path::PathBuf> = vec![ctx.repo.join("README.md"), ctx.repo.join("example.cfg")];
        for d in ["doc", "src/config"] {
            if let Ok(rd) = std::fs::read_dir(ctx.repo.join(d)) {
                files.extend(rd.flatten().map(|e| e.path()));
            }
        }
        for f in files {
            let Ok(txt) = std::fs::read_to_string(&f) else { continue };
            let b = txt.as_bytes();
            let mut i = 0;
            while i < b.len() {
                let mut j = i;
                while j < b.len() && b[j].is_ascii_hexdigit() {
                    j += 1;
                }
                if j - i == 64 {
                    if let Some(s) = crate::prng::unhex(&txt[i..j]) {
                        if !doc_seeds.contains(&s) {
                            doc_seeds.push(s);
                        }
                    }
                }
                i = j.max(i + 1);
            }
        }
    }
    out.obs("documented_sample_seeds_found", doc_seeds.len() as i64);
    let n = ctx.share(120, 900); // (3 x 37 failing-start kinds + margin: every kind at least once in the quick tier)
    for i in 0..n {
        let k = i * ctx.nshards + ctx.shard;
        // one run in five uses a seed whose hex form consists of decimal digits only (YAML types
        // it as a number; every byte is 0x00..0x99 in BCD form)
        let seed: Vec<u8> = if k % 3 == 0 && ((k / 3) as usize) < doc_seeds.len() {
            out.obs("real_server_runs_with_a_documented_sample_seed", 1);
            doc_seeds[(k / 3) as usize].clone()
        } else if k % 5 == 1 {
            (0..32).map(|_| (rng.below(10) * 16 + rng.below(10)) as u8).collect()
        } else {
            rng.bytes(32)
        };
        if k % 5 == 1 {
            out.obs("real_server_runs_with_all_digit_seed", 1);
        }
        let nd = needles("seed", &seed).into_iter().chain(needles("scalar", &clamped_scalar(&seed))).collect::<Vec<_>>();
        let pk = RefKey::from_seed(&seed).public();
        let via_env = k % 2 == 0;
        let mut cfg = SrvCfg::new(free_port(false), &seed);
        cfg.via_env = via_env;
        cfg.num_workers = Some(*rng.pick(&[1u32, 2, 4]));
        cfg.fault_percentage = Some(*rng.pick(&[0u32, 10]));
        // optional settings vary too: their own log / error paths must not print the seed either
        if k % 4 >= 2 {
            let dir = ctx.scratch.join("persist20");
            std::fs::create_dir_all(&dir).ok();
            cfg.client_stats = Some(rng.pick(&["on", "yes", "ON"]).to_string());
            cfg.persistence_directory = Some(dir);
            cfg.status_interval = Some(*rng.pick(&[1u32, 10, 600]));
            out.obs("real_server_runs_with_client_stats", 1);
        }
        if k % 8 >= 6 {
            cfg.health_check_port = Some(free_port(true));
        }
        if k % 2 == 1 {
            cfg.batch_size = Some(*rng.pick(&[1u32, 64]));
        }
        let failing = k % 3 == 2;
        let mut pairs: Vec<(String, String)> = cfg.pairs().into_iter().map(|(a, b)| (a.to_string(), b)).collect();
        let mut what = "serving".to_string();
        // the seed text in upper or mixed case (a valid spelling of the same 32 bytes)
        if !failing && k % 4 == 1 {
            let hx = hex(&seed);
            let v = if k % 8 == 1 { hx.to_uppercase() } else { hx.chars().enumerate().map(|(i, c)| if i % 2 == 0 { c.to_ascii_uppercase() } else { c }).collect() };
            pairs.retain(|(a, _)| a != "seed");
            pairs.push(("seed".into(), v));
            what = "serving (seed text in upper / mixed case)".into();
            out.obs("real_server_runs_with_uppercase_seed_text", 1);
        }
        if failing {
            let hx = hex(&seed);
            let (kk, vv, w): (&str, String, &str) = match (k / 3) % 37 {
                // a KMS key id with a seed text longer than 32 bytes (what a wrapped blob looks like)
                // in a binary without KMS support: passes validation, fails when the seed is loaded
                35 => ("__raw__noseed_kms_a", format!("seed: {}{}\nkms_protection: arn:aws:kms:us-east-2:111122223333:key/1234abcd-12ab-34cd-56ef-1234567890ab", hx, hex(&rng.bytes(40))), "aws kms id with a seed text longer than 32 bytes"),
                36 => ("__raw__noseed_kms_b", format!("seed: {}{}\nkms_protection: projects/p/locations/global/keyRings/r/cryptoKeys/k", hx, hex(&rng.bytes(17))), "gcp kms id with a seed text longer than 32 bytes"),
                29 => ("__raw__noseed_noif_a", format!("seed: {}\ninterface:", hx), "a blank interface right after the seed line"),
                30 => ("__raw__noseed_noif_b", format!("seed: {}\ninterface: ~", hx), "a null interface right after the seed line"),
                31 => ("__raw__noseed_c2", format!("seed: {}\npersistence_directory:\nclient_stats: on", hx), "a blank persistence_directory right after the seed line"),
                32 => ("seed", format!("\"{}\u{201d}", hx), "ENV seed in an ASCII opening and a typographic closing quote"),
                33 => ("seed", format!("\u{201c}{}\u{201d}", hx), "ENV seed in typographic quotes"),
                34 => ("seed", format!("'{}\u{2019}", hx), "ENV seed in an ASCII opening and a typographic closing single quote"),
                21 => ("__raw__noseed_a", format!("seed:\n  '{}\"", hx), "YAML syntax error inside the seed value written on its own indented line"),
                22 => ("__raw__noseed_b", format!("\"seed\": '{}\"", hx), "YAML syntax error in the seed value under a quoted key"),
                23 => ("__raw__noseed_c", format!("{{seed: '{}\", batch_size: 1}}", hx), "YAML syntax error in the seed value inside a flow mapping"),
                24 => ("__raw__noseed_d", format!("seed: '{}\"", hx), "YAML syntax error (mismatched quotes) in the seed value"),
                25 => ("__raw__noseed_e", format!("seed: \"{}", hx), "unterminated quoted seed value"),
                26 => ("__raw__noseed_f", format!("seed: >\n  {}\n {}", &hx[..32], &hx[32..]), "seed as a folded block scalar with broken indentation"),
                27 => ("seed", format!("__hexbytes__{}a0", hex(hx.as_bytes())), "ENV seed followed by a byte that is not valid UTF-8"),
                28 => ("seed", format!("__hexbytes__ff{}", hex(hx.as_bytes())), "ENV seed preceded by a byte that is not valid UTF-8"),
                14 => ("seed", format!("[{}]", hx), "seed written as a YAML sequence"),
                15 => ("seed", format!("{{value: {}}}", hx), "seed written as a YAML mapping"),
                16 => ("__raw__misspelt", format!("sead: {}", hx), "the seed under a misspelt key"),
                17 => ("__raw__nested", format!("server:\n  seed: {}\n  port: 1", hx), "the seed nested under an unknown section"),
                18 => ("__raw__upper", format!("SEED: {}", hx), "the seed under an upper-case key (next to the real one)"),
                19 => ("seed", format!("[{}, {}]", &hx[..32], &hx[32..]), "seed split over a YAML sequence"),
                20 => ("__raw__dup", format!("Seed: {}", hx), "the seed under a capitalised key (next to the real one)"),
                0 => ("batch_size", "200".into(), "batch_size out of range"),
                1 => ("fault_percentage", "77".into(), "fault_percentage out of range"),
                2 => ("port", "0".into(), "port 0"),
                3 => ("interface", "not-an-address".into(), "bad interface"),
                4 => ("kms_protection", "arn:aws:kms:x:1:key/abc".into(), "kms id with a plaintext seed"),
                5 => ("no_such_key", "1".into(), "unknown key"),
                6 => ("__raw__trailer", "---".into(), "file with a second (empty) YAML document"),
                7 => ("seed", format!("{}zz", hx), "seed followed by non-hex characters"),
                8 => ("seed", if via_env { format!("\"{}\"", hx) } else { format!("'{} '", hx) }, "seed with literal quotes / trailing blank"),
                9 => ("seed", format!("{}a", hx), "seed with an odd number of digits"),
                10 => ("kms_protection", "projects/p/locations/global/keyRings/r/cryptoKeys/k".into(), "gcp kms id with a plaintext seed"),
                11 => ("port", "notaport".into(), "non-numeric port"),
                12 => ("num_workers", "0".into(), "zero workers"),
                _ => ("__raw__trailer", "seed: [1, 2".into(), "file that is not valid YAML"),
            };
            if kk.starts_with("__raw__") {
                cfg.via_env = false;
            }
            if kk.starts_with("__raw__noseed") {
                pairs.retain(|(a, _)| a != "seed");
            }
            if kk.starts_with("__raw__noseed_noif") {
                pairs.retain(|(a, _)| a != "interface");
            }
            if (32..=34).contains(&((k / 3) % 37)) {
                cfg.via_env = true;
            }
            if vv.starts_with("__hexbytes__") {
                cfg.via_env = true;
            }
            pairs.retain(|(a, _)| a != kk);
            pairs.push((kk.to_string(), vv));
            what = format!("failing start-up: {}", w);
        }
        let Ok(mut sp) = spawn_server(&ctx.bins, &cfg, &ctx.scratch, &format!("c20-{}", k), Some(pairs)) else {
            out.inconclusive("spawn failed");
            continue;
        };
        if !failing {
            if sp.wait_ready(&pk, Duration::from_secs(10)).is_err() {
                // whatever it printed on the way down is output all the same
                sp.kill();
                let o = sp.output();
                let rp = || json!({"kind":"real-server-output","what":format!("{} (did not come up)", what),"source": if cfg.via_env {"ENV"} else {"file"}});
                scan(out, o.as_bytes(), &nd, "real-server-output(failed-to-serve)", &rp);
                out.inconclusive("real server not ready");
                continue;
            }
            // traffic of all kinds, so that per-request log paths run
            let s = std::net::UdpSocket::bind("127.0.0.1:0").unwrap();
            let addr: std::net::SocketAddr = format!("127.0.0.1:{}", sp.cfg.port).parse().unwrap();
            for i in 0..60 {
                let d = if i % 3 == 0 { hostile(rng, &[0u8; 32]).data } else { make_request(rng, if i % 2 == 0 { Proto::Classic } else { Proto::Ietf }, None).0 };
                let _ = s.send_to(&d, addr);
            }
            s.set_read_timeout(Some(Duration::from_millis(200))).unwrap();
            let mut buf = vec![0u8; 4096];
            let rp = || json!({"kind":"real-server-output","what":what,"source": if via_env {"ENV"} else {"file"}});
            while let Ok((n, _)) = s.recv_from(&mut buf) {
                out.obs("datagrams_scanned", 1);
                scan(out, &buf[..n], &nd, "real-server-datagram", &rp);
            }
            sp.signal(libc::SIGTERM);
            if sp.wait_exit(Duration::from_secs(10)).is_none() {
                sp.kill();
            }
        } else {
            let _ = sp.wait_exit(Duration::from_secs(10));
            sp.kill();
            out.obs("real_server_failing_startups_scanned", 1);
        }
        let o = sp.output();
        out.obs("real_server_outputs_scanned", 1);
        out.obs("real_server_output_bytes", o.len() as i64);
        let rp = || json!({"kind":"real-server-output","what":what,"source": if cfg.via_env {"ENV"} else {"file"},"output": o.chars().take(1500).collect::<String>()});
        scan(out, o.as_bytes(), &nd, &format!("real-server-output({})", if failing { "failing-start" } else { "serving" }), &rp);
        out.case(fnv64(&seed) ^ 0x20, true);
        if !ctx.time_left() {
            break;
        }
    }
}


/// Fault injection beyond datagrams: a health-check connection arrives while the process has no
/// file descriptor left, so accept() keeps failing (EMFILE). The worker must come back from
/// process_events and keep answering time requests.
fn accept_fault_scenario(out: &mut Out, rng: &mut Rng) {
    use std::os::unix::io::FromRawFd;
    let mut cfg = HConfig::new(&rng.bytes(32));
    let hp = crate::procs::free_port(true);
    cfg.health_check_port = Some(hp);
    let Ok(mut d) = Driver::new(cfg.clone(), 2) else {
        out.inconclusive("server start failed");
        return;
    };
    let srv = d.srv_value.clone();
    // warm-up: one ordinary round and one ordinary health connection
    let r = d.round(vec![(0, valid_classic(rng).data)], true);
    if r.panic.is_some() {
        return;
    }
    // the client's TCP socket is created first; then every remaining descriptor is used up
    let tcp = unsafe { libc::socket(libc::AF_INET, libc::SOCK_STREAM | libc::SOCK_NONBLOCK, 0) };
    if tcp < 0 {
        out.inconclusive("socket() failed");
        return;
    }
    // keep the exhaustion cheap: lower the soft descriptor limit for the duration
    let mut old = libc::rlimit { rlim_cur: 0, rlim_max: 0 };
    unsafe {
        libc::getrlimit(libc::RLIMIT_NOFILE, &mut old);
        let low = libc::rlimit { rlim_cur: 512.min(old.rlim_max), rlim_max: old.rlim_max };
        libc::setrlimit(libc::RLIMIT_NOFILE, &low);
    }
    let mut hogs: Vec<std::fs::File> = Vec::new();
    loop {
        match std::fs::File::open("/dev/null") {
            Ok(f) => hogs.push(f),
            Err(_) => break,
        }
        if hogs.len() > 200_000 {
            break;
        }
    }
    let sa = libc::sockaddr_in { sin_family: libc::AF_INET as u16, sin_port: hp.to_be(), sin_addr: libc::in_addr { s_addr: u32::from_ne_bytes([127, 0, 0, 1]) }, sin_zero: [0; 8] };
    unsafe {
        libc::connect(tcp, &sa as *const libc::sockaddr_in as *const libc::sockaddr, std::mem::size_of::<libc::sockaddr_in>() as u32);
    }
    std::thread::sleep(std::time::Duration::from_millis(20));
    // a valid request is already queued as well
    let dg = valid_ietf(rng, Some(&srv)).data;
    let _ = d.socks[0].send_to(&dg, d.srv.addr);
    let exhausted = std::fs::File::open("/dev/null").is_err();
    let stepped = d.srv.step(2);
    drop(hogs);
    unsafe {
        libc::setrlimit(libc::RLIMIT_NOFILE, &old);
    }
    if !exhausted {
        out.inconclusive("could not exhaust file descriptors");
        return;
    }
    let _tcp = unsafe { std::net::TcpStream::from_raw_fd(tcp) };
    out.obs("accept_fault_scenarios", 1);
    out.case(crate::prng::fnv64(&cfg.seed) ^ 0xacce, true);
    let rp = || json!({"kind":"accept-fault","what":"health-check connection pending while the process is out of file descriptors"});
    match stepped {
        Err(p) => {
            let wedged = p.starts_with("WEDGED");
            out.violation(
                &format!("C08 server {} during-accept-fault {}", if wedged { "wedged" } else { "panic" }, if wedged { String::new() } else { crate::c05::panic_site(&p) }),
                &format!("with accept() failing persistently (no file descriptors) process_events {}: {}", if wedged { "did not return within 60 s" } else { "unwound" }, p),
                rp(),
            );
        }
        Ok(()) => {
            // and afterwards it serves as before
            let r = d.round(vec![(1, valid_classic(rng).data)], true);
            if r.panic.is_some() || !r.sentinel_verified {
                out.violation("C08 server not-serving-after-accept-fault", "after the descriptors were released a valid request was not answered correctly", rp());
            } else {
                out.obs("accept_fault_survived", 1);
            }
        }
    }
}


/// C20: the configuration loaders themselves, called in this process under the capturing logger
/// at Trace (the real binary is fixed at Info, so anything they log at Debug/Trace is only
/// visible this way). Files with key-spelling variants, extra keys, typed seeds; both accepted
/// and refused ones. Panics are refusals; whatever was logged is searched.
fn config_loading_under_trace(ctx: &Ctx, out: &mut Out, rng: &mut Rng) {
    let dir = ctx.scratch.join("cfgload");
    std::fs::create_dir_all(&dir).ok();
    for i in 0..ctx.share(64, 1_600) {
        let seed = if i % 4 == 1 { (0..32).map(|_| (rng.below(10) * 16 + rng.below(10)) as u8).collect::<Vec<u8>>() } else { rng.bytes(32) };
        let hx = hex(&seed);
        let nd = needles("seed", &seed).into_iter().chain(needles("scalar", &clamped_scalar(&seed))).collect::<Vec<_>>();
        let seed_line = match i % 9 {
            0 => format!("seed: {}", hx),
            1 => format!("seed: {}", hx),
            2 => format!("SEED: {}", hx),
            3 => format!("Seed: {}", hx),
            4 => format!("seed: \"{}\"", hx),
            5 => format!("seed: {}\nsead: {}", hx, hx),
            6 => format!("seed: [{}]", hx),
            7 => format!("seed: {}\nbatch_size: {}", hx, rng.range(0, 300)),
            _ => format!("seed: {}\nclient_stats: on\npersistence_directory: {}", hx, dir.display()),
        };
        let txt = format!("interface: 127.0.0.1\nport: {}\n{}\n", 2000 + i, seed_line);
        let path = dir.join(format!("c{}.cfg", i));
        if std::fs::write(&path, &txt).is_err() {
            continue;
        }
        let _ = take_logs();
        let p2 = path.to_str().unwrap().to_string();
        let r = std::panic::catch_unwind(move || match roughenough::config::make_config(&p2) {
            Ok(c) => {
                let _ = roughenough::config::is_valid_config(c.as_ref());
                true
            }
            Err(e) => {
                // what the server binary does with a configuration error
                log::error!("{:?}", e);
                false
            }
        });
        let panic_text = crate::inproc::take_panics().join(" | ");
        out.obs("config_loads_scanned", 1);
        out.obs(match r { Ok(true) => "config_loads_accepted", Ok(false) => "config_loads_err", Err(_) => "config_loads_panicked" }, 1);
        out.case(fnv64(&seed) ^ 0xcf6, true);
        let rp = || json!({"kind":"config-load","file": txt.replace(&hx, "<seed>")});
        for l in take_logs() {
            out.obs("log_records_scanned", 1);
            scan(out, l.msg.as_bytes(), &nd, &format!("config-load-log-{}", l.level), &rp);
        }
        // a panic message ends up on stderr of the real server
        scan(out, panic_text.as_bytes(), &nd, "config-load-panic-text", &rp);
        let _ = std::fs::remove_file(&path);
    }
}
