//! Generators shared by the codec monitors (C05, C06) and the datagram monitors.

use crate::prng::Rng;
use crate::refimpl::codec::*;

pub const UNKNOWN_TAG: u32 = u32::from_le_bytes(*b"XXXX");

/// alphabet of interesting 32-bit words for the bounded-exhaustive scope
pub fn alphabet(thorough: bool) -> Vec<u32> {
    let mut a = vec![0, 1, 2, 3, 4, 8, 0xffff_fffc, SIG, NONC, CERT, PAD, UNKNOWN_TAG];
    if !thorough {
        a.extend_from_slice(&[5, 12, 0xffff_ffff]);
    }
    a
}

pub fn words_to_bytes(w: &[u32]) -> Vec<u8> {
    let mut b = Vec::with_capacity(w.len() * 4);
    for x in w {
        b.extend_from_slice(&x.to_le_bytes());
    }
    b
}

/// number of strings of length 0..=maxlen over k letters
pub fn enum_total(k: u64, maxlen: u32) -> u64 {
    (0..=maxlen).map(|l| k.pow(l)).sum()
}

/// the idx-th string in length-then-lexicographic order
pub fn enum_nth(alpha: &[u32], maxlen: u32, mut idx: u64) -> Vec<u32> {
    let k = alpha.len() as u64;
    let mut len = 0u32;
    loop {
        let c = k.pow(len);
        if idx < c {
            break;
        }
        idx -= c;
        len += 1;
        assert!(len <= maxlen);
    }
    let mut w = vec![0u32; len as usize];
    for i in (0..len as usize).rev() {
        w[i] = alpha[(idx % k) as usize];
        idx /= k;
    }
    w
}

/// random valid message: ascending subset of the known tags, aligned values
pub fn random_valid(rng: &mut Rng, max_val: usize, nested_ok: bool) -> RefMsg {
    let mut m = RefMsg::new();
    let nf = match rng.below(10) {
        0 => 0,
        1 => 1,
        2 => 18,
        3 | 4 => rng.range(0, 18),
        _ => rng.range(2, 8),
    } as usize;
    let mut idx: Vec<usize> = (0..18).collect();
    rng.shuffle(&mut idx);
    let mut chosen: Vec<usize> = idx.into_iter().take(nf).collect();
    chosen.sort();
    for i in chosen {
        let t = tag_u32(KNOWN_TAGS[i]);
        let len = match rng.below(8) {
            0 => 0,
            1 => 4,
            2 => (rng.below(max_val as u64 / 4 + 1) * 4) as usize,
            _ => (rng.below(17) * 4) as usize,
        };
        let val = if nested_ok && (t == CERT || t == DELE || t == SREP) && rng.chance(1, 2) {
            // a well-formed nested message (one level)
            let inner = random_valid(rng, 64, false);
            inner.encode()
        } else {
            rng.bytes(len)
        };
        m.set(t, &val);
    }
    m
}

#[derive(Debug, Clone)]
pub struct Mutant {
    pub bytes: Vec<u8>,
    pub op: &'static str,
}

/// one structured mutation of a valid encoding, aimed at count / offset / tag words
pub fn mutate(rng: &mut Rng, valid: &[u8], nfields: usize) -> Mutant {
    let mut b = valid.to_vec();
    let wr = |b: &mut Vec<u8>, at: usize, v: u32| {
        if at + 4 <= b.len() {
            b[at..at + 4].copy_from_slice(&v.to_le_bytes());
        }
    };
    let rd = |b: &Vec<u8>, at: usize| -> u32 {
        if at + 4 <= b.len() {
            u32::from_le_bytes([b[at], b[at + 1], b[at + 2], b[at + 3]])
        } else {
            0
        }
    };
    let n = nfields;
    let off_base = 4;
    let tag_base = 4 + 4 * n.saturating_sub(1);
    let op: &'static str;
    match rng.below(22) {
        20 | 21 if n >= 3 => {
            // all offsets from position i on moved by the same (usually unaligned) amount, so that
            // the values between them keep their lengths
            op = "offsets-shifted-together";
            let i = rng.usize_below(n - 1);
            let delta = *rng.pick(&[1i64, 2, 3, 5, 6, 7, -1, -2, -3, 4, -4, 8]);
            for k in i..n - 1 {
                let o = rd(&b, off_base + 4 * k) as i64;
                wr(&mut b, off_base + 4 * k, (o + delta) as u32);
            }
        }
        0 => {
            op = "count+1";
            let c = rd(&b, 0);
            wr(&mut b, 0, c.wrapping_add(1));
        }
        1 => {
            op = "count-1";
            let c = rd(&b, 0);
            wr(&mut b, 0, c.wrapping_sub(1));
        }
        2 => {
            op = "count=special";
            let v = *rng.pick(&[0u32, 1, 2, 18, 19, 1024, 1025, 0x7fff_ffff, 0x8000_0000, 0xffff_ffff, 0x4000_0000, 0x2000_0001]);
            wr(&mut b, 0, v);
        }
        3 | 4 if n >= 2 => {
            op = "offset+-4";
            let i = rng.usize_below(n - 1);
            let o = rd(&b, off_base + 4 * i);
            let v = if rng.chance(1, 2) { o.wrapping_add(4) } else { o.wrapping_sub(4) };
            wr(&mut b, off_base + 4 * i, v);
        }
        5 if n >= 2 => {
            op = "offset+-1";
            let i = rng.usize_below(n - 1);
            let o = rd(&b, off_base + 4 * i);
            let v = if rng.chance(1, 2) { o.wrapping_add(1) } else { o.wrapping_sub(1) };
            wr(&mut b, off_base + 4 * i, v);
        }
        6 if n >= 3 => {
            op = "offset-swap";
            let i = rng.usize_below(n - 1);
            let j = rng.usize_below(n - 1);
            let (a, c) = (rd(&b, off_base + 4 * i), rd(&b, off_base + 4 * j));
            wr(&mut b, off_base + 4 * i, c);
            wr(&mut b, off_base + 4 * j, a);
        }
        7 if n >= 2 => {
            op = "offset=special";
            let i = rng.usize_below(n - 1);
            let total = b.len() as u32;
            let hdr = (tag_base + 4 * n) as u32;
            let v = *rng.pick(&[
                0u32,
                total,
                total.wrapping_sub(hdr),
                total.wrapping_sub(hdr).wrapping_add(4),
                total.wrapping_add(4),
                0xffff_fffc,
                0xffff_ffff,
                0x8000_0000,
                total.wrapping_sub(4),
            ]);
            wr(&mut b, off_base + 4 * i, v);
        }
        8 if n >= 2 => {
            op = "tag-duplicate";
            let i = rng.usize_below(n - 1);
            let t = rd(&b, tag_base + 4 * i);
            wr(&mut b, tag_base + 4 * (i + 1), t);
        }
        9 if n >= 2 => {
            op = "tag-swap";
            let i = rng.usize_below(n - 1);
            let (a, c) = (rd(&b, tag_base + 4 * i), rd(&b, tag_base + 4 * (i + 1)));
            wr(&mut b, tag_base + 4 * i, c);
            wr(&mut b, tag_base + 4 * (i + 1), a);
        }
        10 if n >= 1 => {
            op = "tag-unknown";
            let i = rng.usize_below(n);
            let v = match rng.below(4) {
                0 => UNKNOWN_TAG,
                1 => u32::from_le_bytes(*b"sig\x00"),
                2 => u32::from_le_bytes(*b"PAD\x00"),
                _ => rng.next_u32(),
            };
            wr(&mut b, tag_base + 4 * i, v);
        }
        11 if n >= 1 => {
            op = "tag-replace-known";
            let i = rng.usize_below(n);
            let v = tag_u32(KNOWN_TAGS[rng.usize_below(18)]);
            wr(&mut b, tag_base + 4 * i, v);
        }
        12 => {
            op = "truncate";
            let l = rng.usize_below(b.len() + 1);
            b.truncate(l);
        }
        13 => {
            op = "truncate-aligned";
            let l = rng.usize_below(b.len() / 4 + 1) * 4;
            b.truncate(l);
        }
        14 => {
            op = "extend";
            let k = rng.range(1, 16) as usize;
            let e = rng.bytes(k);
            b.extend_from_slice(&e);
        }
        15 => {
            op = "extend-aligned";
            let k = rng.range(1, 8) as usize * 4;
            let e = rng.bytes(k);
            b.extend_from_slice(&e);
        }
        16 => {
            op = "flip-header-bit";
            let hdr = std::cmp::min(b.len(), tag_base + 4 * n);
            if hdr > 0 {
                let i = rng.usize_below(hdr);
                b[i] ^= 1 << rng.below(8);
            }
        }
        17 => {
            op = "random-word";
            if b.len() >= 4 {
                let i = rng.usize_below(b.len() / 4);
                let v = rng.next_u32();
                wr(&mut b, 4 * i, v);
            }
        }
        _ => {
            op = "none";
        }
    }
    Mutant { bytes: b, op }
}

/// random byte string with a length drawn from the classes of 0..=65536
pub fn random_bytes(rng: &mut Rng) -> Vec<u8> {
    let len = match rng.below(12) {
        0 => rng.below(8),
        1 => rng.range(8, 64),
        2 => rng.below(16) * 4,
        3 => rng.range(64, 1024),
        4 => rng.range(1024, 1500),
        5 => rng.range(1500, 65536),
        6 => 65536,
        7 => rng.below(16384) * 4,
        _ => rng.range(0, 256),
    } as usize;
    let mut b = rng.bytes(len);
    // bias the count word to small values so that header logic is exercised
    if b.len() >= 4 && rng.chance(3, 4) {
        let c = match rng.below(4) {
            0 => rng.below(4) as u32,
            1 => rng.below(20) as u32,
            2 => rng.below(1100) as u32,
            _ => (b.len() / 8) as u32,
        };
        b[0..4].copy_from_slice(&c.to_le_bytes());
        // and offsets to small aligned values
        if rng.chance(1, 2) {
            let n = c as usize;
            for i in 0..n.saturating_sub(1) {
                let at = 4 + 4 * i;
                if at + 4 > b.len() {
                    break;
                }
                let v = (rng.below((b.len() / 4 + 2) as u64) * 4) as u32;
                b[at..at + 4].copy_from_slice(&v.to_le_bytes());
            }
        }
    }
    b
}
