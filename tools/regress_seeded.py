#!/usr/bin/env python3
"""tools/regress_seeded.py [pattern] : for every kept seeded change (seeded/<id>/patch.diff) apply it to
/repo, run the quick check(s) named in meta.json:caught_by, revert, and record exit code and signatures
in seeded/<id>/last_regression.json. Nothing else may use /repo meanwhile. Prints one line per change;
exit 1 if a change is not caught by any of its named checks."""
import sys, os, json, glob, subprocess, re, fnmatch, time
VERIF = os.path.dirname(os.path.dirname(os.path.abspath(__file__)))
REPO = os.environ.get("VERIF_REPO", "/repo")
pats = sys.argv[1:] or ["*"]
seed = os.environ.get("VERIF_SEED", "1")
bad = 0
for d in sorted(glob.glob(VERIF + "/seeded/*")):
    name = os.path.basename(d)
    if not any(fnmatch.fnmatch(name, p) for p in pats) or not os.path.exists(d + "/patch.diff"):
        continue
    meta = json.load(open(d + "/meta.json"))
    props = []
    force = False
    for c in meta.get("caught_by", []):
        m = re.match(r"(C\d\d) (quick|thorough)", c)
        if m and m.group(1) not in props:
            props.append(m.group(1))
        if m and m.group(2) == "thorough":
            force = True
    if subprocess.run(["git", "-C", REPO, "diff", "--quiet"]).returncode != 0:
        print(REPO + " not clean"); sys.exit(2)
    if subprocess.run(["git", "-C", REPO, "apply", d + "/patch.diff"]).returncode != 0:
        print(name, "PATCH DOES NOT APPLY"); bad += 1; continue
    res = {}
    try:
        for p in props:
            env = dict(os.environ, VERIF_SEED=seed)
            if force:
                env["VERIF_FORCE_SANITIZERS"] = "1"
            t0 = time.time()
            r = subprocess.run(["./check", p, "quick"], cwd=VERIF, env=env, stdout=subprocess.PIPE, stderr=subprocess.DEVNULL, text=True)
            sigs = [l.strip()[len("signature: "):] for l in r.stdout.splitlines() if l.strip().startswith("signature:")]
            res[p] = dict(exit=r.returncode, signatures=sigs[:8], seconds=round(time.time() - t0, 1))
    finally:
        subprocess.run(["git", "-C", REPO, "checkout", "--", "."])
    caught = [p for p, v in res.items() if v["exit"] == 1 and v["signatures"]]
    json.dump(dict(seed=int(seed), verif_commit=subprocess.run(["git", "-C", VERIF, "rev-parse", "--short", "HEAD"], stdout=subprocess.PIPE, text=True).stdout.strip(), results=res, caught=bool(caught)), open(d + "/last_regression.json", "w"), indent=1)
    print(name, "CAUGHT" if caught else "MISSED", "; ".join("%s rc=%d %s" % (p, v["exit"], " | ".join(v["signatures"][:3])) for p, v in res.items()), flush=True)
    if not caught:
        bad += 1
sys.exit(1 if bad else 0)
