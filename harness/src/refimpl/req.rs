//! Reference request builder and the independent "is this a well-formed request" predicate.

use super::codec::*;
use super::crypto::*;

pub const MIN_REQ: usize = 1024;
pub const MAX_REQ: usize = 1500;

/// Build a classic request of exactly `size` bytes (size >= 16 + nonce.len(), size % 4 == 0).
pub fn classic_request(nonce: &[u8], size: usize) -> Vec<u8> {
    let mut m = RefMsg::new();
    m.set(NONC, nonce);
    let hdr = 16; // count + 1 offset + 2 tags
    let pad = size.saturating_sub(hdr + nonce.len());
    m.set(PAD, &vec![0u8; pad]);
    m.encode()
}

/// Build an IETF request: framed {VER, [SRV], NONC, ZZZZ} of exactly `size` bytes overall.
pub fn ietf_request(vers: &[u32], srv: Option<&[u8]>, nonce: &[u8], size: usize) -> Vec<u8> {
    let mut ver_b = Vec::new();
    for v in vers {
        ver_b.extend_from_slice(&v.to_le_bytes());
    }
    ietf_request_raw(Some(&ver_b), srv, Some(nonce), size)
}

pub fn ietf_request_raw(ver: Option<&[u8]>, srv: Option<&[u8]>, nonce: Option<&[u8]>, size: usize) -> Vec<u8> {
    let mut m = RefMsg::new();
    if let Some(v) = ver {
        m.set(VER, v);
    }
    if let Some(s) = srv {
        m.set(SRV, s);
    }
    if let Some(n) = nonce {
        m.set(NONC, n);
    }
    m.set(ZZZZ, &[]);
    let base = 12 + m.encode().len();
    let pad = size.saturating_sub(base);
    m.set(ZZZZ, &vec![0u8; pad]);
    m.encode_framed()
}

#[derive(Debug, Clone, PartialEq, Eq)]
pub struct ReqInfo {
    pub proto: Proto,
    pub nonce: Vec<u8>,
    /// VER entries (IETF), whole 4-byte chunks only
    pub vers: Vec<u32>,
    pub srv: Option<Vec<u8>>,
}

/// Structural well-formedness (size window not included): the *necessary* conditions for
/// any answer at all. Classic: decodes and carries NONC. IETF: magic, exact frame
/// length, decodes, carries NONC and a VER list.
pub fn parse_request(d: &[u8]) -> Option<ReqInfo> {
    if d.len() >= 8 && &d[0..8] == b"ROUGHTIM" {
        let payload = unframe(d).ok()?;
        let m = RefMsg::decode(payload).ok()?;
        let nonce = m.get(NONC)?.to_vec();
        let ver = m.get(VER)?;
        let vers = ver.chunks(4).filter(|c| c.len() == 4).map(|c| u32::from_le_bytes(c.try_into().unwrap())).collect();
        Some(ReqInfo { proto: Proto::Ietf, nonce, vers, srv: m.get(SRV).map(|s| s.to_vec()) })
    } else {
        let m = RefMsg::decode(d).ok()?;
        let nonce = m.get(NONC)?.to_vec();
        Some(ReqInfo { proto: Proto::Classic, nonce, vers: vec![], srv: None })
    }
}

#[derive(Debug, Clone, Copy, PartialEq, Eq)]
pub enum Expect {
    /// the property forbids any reply
    MustNot,
    /// the property demands a reply
    Must,
    /// neither implication of the statements applies
    May,
}

/// What the properties (C07, C09, C12) say about a datagram sent to a server whose
/// commitment value is `server_srv`.
pub fn expectation(d: &[u8], server_srv: &[u8]) -> (Expect, Option<ReqInfo>) {
    if d.len() < MIN_REQ || d.len() > MAX_REQ {
        return (Expect::MustNot, None);
    }
    let Some(info) = parse_request(d) else { return (Expect::MustNot, None) };
    match info.proto {
        Proto::Classic => {
            let e = if info.nonce.len() == 64 { Expect::Must } else { Expect::May };
            (e, Some(info))
        }
        Proto::Ietf => {
            if !info.vers.contains(&DRAFT13) {
                return (Expect::MustNot, Some(info));
            }
            if let Some(s) = &info.srv {
                if s.as_slice() != server_srv {
                    return (Expect::MustNot, Some(info));
                }
            }
            let early = info.vers.iter().take(4).any(|v| *v == DRAFT13);
            let e = if early && info.nonce.len() == 32 { Expect::Must } else { Expect::May };
            (e, Some(info))
        }
    }
}
