#!/bin/sh
# offline pre-build of the harness and the real binaries (checked profile)
cd "$(dirname "$0")" && exec ./check build
