//! Spawning and observing the real roughenough binaries built from the working tree.

use std::io::Read;
use std::net::{SocketAddr, UdpSocket};
use std::path::{Path, PathBuf};
use std::process::{Child, Command, Stdio};
use std::time::{Duration, Instant};

use crate::prng::{hex, Rng};
use crate::refimpl::crypto::{Proto, DRAFT13};
use crate::refimpl::req;
use crate::refimpl::verify::{verify_response, Opts, ReqView, Verified};

#[derive(Clone, Debug)]
pub struct SrvCfg {
    pub port: u16,
    pub seed: Vec<u8>,
    pub batch_size: Option<u32>,
    pub status_interval: Option<u32>,
    pub health_check_port: Option<u16>,
    pub client_stats: Option<String>,
    pub persistence_directory: Option<PathBuf>,
    pub fault_percentage: Option<u32>,
    pub num_workers: Option<u32>,
    pub via_env: bool,
    /// run under `taskset -c <cpus>` (every thread inherits the CPU set)
    pub pin: Option<String>,
    /// TZ of the server process (None = chosen from the port number)
    pub tz: Option<String>,
    /// extra environment for the server process (e.g. LD_PRELOAD of the clock shim)
    pub extra_env: Vec<(String, String)>,
    /// listen on the IPv6 loopback instead of 127.0.0.1
    pub v6: bool,
    /// signals whose disposition is "ignore" when the server is exec'ed (what nohup does with
    /// SIGHUP, and a non-interactive shell with SIGINT for a background job)
    pub ignore_signals: Vec<i32>,
    /// stdout (where the server logs) is a small pipe read by the harness only while
    /// `ServerProc::log_sink_open` is set: a log sink that can stall (a blocked terminal, a slow
    /// journal) instead of a file that never does
    pub log_pipe: bool,
    /// listen on 0.0.0.0 (every local address) instead of 127.0.0.1
    pub any_iface: bool,
    /// write the seed in upper-case hex (the same 32 bytes)
    pub seed_upper: bool,
}

impl SrvCfg {
    pub fn new(port: u16, seed: &[u8]) -> SrvCfg {
        SrvCfg {
            port,
            seed: seed.to_vec(),
            batch_size: None,
            status_interval: None,
            health_check_port: None,
            client_stats: None,
            persistence_directory: None,
            fault_percentage: None,
            num_workers: None,
            via_env: false,
            pin: None,
            tz: None,
            extra_env: Vec::new(),
            v6: false,
            ignore_signals: Vec::new(),
            log_pipe: false,
            any_iface: false,
            seed_upper: false,
        }
    }

    pub fn pairs(&self) -> Vec<(&'static str, String)> {
        let mut v = vec![("interface", if self.v6 { "[::1]".to_string() } else if self.any_iface { "0.0.0.0".to_string() } else { "127.0.0.1".to_string() }), ("port", self.port.to_string()), ("seed", if self.seed_upper { hex(&self.seed).to_uppercase() } else { hex(&self.seed) })];
        if let Some(x) = self.batch_size {
            v.push(("batch_size", x.to_string()));
        }
        if let Some(x) = self.status_interval {
            v.push(("status_interval", x.to_string()));
        }
        if let Some(x) = self.health_check_port {
            v.push(("health_check_port", x.to_string()));
        }
        if let Some(x) = &self.client_stats {
            v.push(("client_stats", x.clone()));
        }
        if let Some(x) = &self.persistence_directory {
            v.push(("persistence_directory", x.display().to_string()));
        }
        if let Some(x) = self.fault_percentage {
            v.push(("fault_percentage", x.to_string()));
        }
        if let Some(x) = self.num_workers {
            v.push(("num_workers", x.to_string()));
        }
        v
    }

    pub fn describe(&self) -> serde_json::Value {
        let mut m = serde_json::Map::new();
        for (k, v) in self.pairs() {
            m.insert(k.to_string(), serde_json::Value::String(if k == "seed" { "<seed>".into() } else { v }));
        }
        m.insert("source".into(), serde_json::Value::String(if self.via_env { "ENV".into() } else { "file".into() }));
        serde_json::Value::Object(m)
    }
}

pub fn env_name(key: &str) -> String {
    format!("ROUGHENOUGH_{}", key.to_uppercase())
}

pub static PORT_SHARD: std::sync::atomic::AtomicU32 = std::sync::atomic::AtomicU32::new(0);
static PORT_CTR: std::sync::atomic::AtomicU32 = std::sync::atomic::AtomicU32::new(0);

/// A UDP (and optionally TCP) port that is free right now on 127.0.0.1, taken from a range
/// private to this shard (below the kernel's ephemeral range), so that two servers started by
/// different shards can never end up sharing a port through SO_REUSEPORT.
/// ports of servers listening on the IPv6 loopback (set by spawn_server); every helper that
/// talks to "the server on port p" picks the address family from here
static V6_PORTS: std::sync::Mutex<Vec<u16>> = std::sync::Mutex::new(Vec::new());

pub fn register_v6(port: u16) {
    V6_PORTS.lock().unwrap().push(port);
}

pub fn is_v6(port: u16) -> bool {
    V6_PORTS.lock().unwrap().contains(&port)
}

/// loopback address of the server (or health listener) on `port`
pub fn srv_addr(port: u16) -> SocketAddr {
    if is_v6(port) {
        format!("[::1]:{}", port).parse().unwrap()
    } else {
        format!("127.0.0.1:{}", port).parse().unwrap()
    }
}

/// local bind address for a socket that will talk to the server on `port`
pub fn local_any(port: u16) -> &'static str {
    if is_v6(port) {
        "[::1]:0"
    } else {
        "127.0.0.1:0"
    }
}

/// Ports this process holds a system-wide claim on. A real server binds its port with
/// SO_REUSEPORT, so two harness processes of different check runs that picked the same port at
/// the same moment would have their servers share one port -- and each other's traffic. A claim
/// is an abstract-namespace unix socket named after the port: exclusive across processes, gone
/// when the process exits.
static CLAIMS: std::sync::Mutex<Vec<(u16, std::os::unix::net::UnixDatagram)>> = std::sync::Mutex::new(Vec::new());

fn claim_port(p: u16) -> bool {
    use std::os::linux::net::SocketAddrExt;
    let mut c = CLAIMS.lock().unwrap();
    if c.iter().any(|(q, _)| *q == p) {
        return true;
    }
    let Ok(addr) = std::os::unix::net::SocketAddr::from_abstract_name(format!("rtverif-port-{}", p)) else { return true };
    match std::os::unix::net::UnixDatagram::bind_addr(&addr) {
        Ok(s) => {
            c.push((p, s));
            true
        }
        Err(_) => false,
    }
}

pub fn free_port(also_tcp: bool) -> u16 {
    let shard = PORT_SHARD.load(std::sync::atomic::Ordering::Relaxed) % 20;
    // (different processes start at different places of the shard's range)
    static START: std::sync::Once = std::sync::Once::new();
    START.call_once(|| PORT_CTR.store((std::process::id() * 37) % 1000, std::sync::atomic::Ordering::Relaxed));
    for _ in 0..1000 {
        let c = PORT_CTR.fetch_add(1, std::sync::atomic::Ordering::Relaxed) % 1000;
        let p = (10_000 + shard * 1000 + c) as u16;
        if !claim_port(p) {
            continue;
        }
        if is_v6(p) {
            continue;
        }
        if UdpSocket::bind(("127.0.0.1", p)).is_ok() && UdpSocket::bind(("::1", p)).is_ok() && (!also_tcp || std::net::TcpListener::bind(("127.0.0.1", p)).is_ok()) {
            return p;
        }
    }
    0
}

/// the server a monitor is currently judging: (pid, UDP port); used by helpers that run on
/// threads without access to the ServerProc
static CURRENT: std::sync::Mutex<Option<(u32, u16)>> = std::sync::Mutex::new(None);
/// > 0 while some helper is deciding whether the server has settled: the harness's own load
/// generators fall silent meanwhile (see `yield_to_judges`)
pub static JUDGING: std::sync::atomic::AtomicU32 = std::sync::atomic::AtomicU32::new(0);

pub fn set_current_server(v: Option<(u32, u16)>) {
    *CURRENT.lock().unwrap() = v;
}

pub fn current_server() -> Option<(u32, u16)> {
    *CURRENT.lock().unwrap()
}

/// called by load generators at the top of their loops
pub fn yield_to_judges() {
    while JUDGING.load(std::sync::atomic::Ordering::Relaxed) > 0 {
        std::thread::sleep(Duration::from_millis(5));
    }
}

pub fn pid_all_threads_sleeping(pid: u32) -> Option<bool> {
    let rd = std::fs::read_dir(format!("/proc/{}/task", pid)).ok()?;
    let mut any = false;
    for e in rd.flatten() {
        let s = std::fs::read_to_string(e.path().join("stat")).ok()?;
        let rest = &s[s.rfind(')')? + 2..];
        any = true;
        if !rest.starts_with('S') {
            return Some(false);
        }
    }
    if any {
        Some(true)
    } else {
        None
    }
}

pub fn port_rx_queued(port: u16) -> Option<u64> {
    let txt = std::fs::read_to_string("/proc/net/udp").ok()?;
    let want = format!(":{:04X}", port);
    let mut total = 0u64;
    for line in txt.lines().skip(1) {
        let cols: Vec<&str> = line.split_whitespace().collect();
        if cols.len() >= 5 && cols[1].ends_with(&want) {
            total += u64::from_str_radix(cols[4].split(':').nth(1)?, 16).ok()?;
        }
    }
    Some(total)
}

/// see ServerProc::quiescent
pub fn pid_quiescent(pid: u32, port: u16, window: Duration) -> bool {
    let (s0, q0) = (pid_all_threads_sleeping(pid), port_rx_queued(port));
    std::thread::sleep(window);
    let (s1, q1) = (pid_all_threads_sleeping(pid), port_rx_queued(port));
    match (s0, s1, q0, q1) {
        (Some(true), Some(true), Some(a), Some(b)) => a == b,
        (None, _, _, _) | (_, None, _, _) => true,
        _ => false,
    }
}

pub struct ServerProc {
    pub child: Child,
    pub cfg: SrvCfg,
    pub out_path: PathBuf,
    pub err_path: PathBuf,
    pub started: Instant,
    /// with cfg.log_pipe: the reader thread drains the server's stderr only while this is true
    pub log_sink_open: std::sync::Arc<std::sync::atomic::AtomicBool>,
}

/// Start the real server binary. `raw_pairs`: if given, used instead of cfg.pairs() (C16/C20).
pub fn spawn_server(bins: &Path, cfg: &SrvCfg, dir: &Path, tag: &str, raw_pairs: Option<Vec<(String, String)>>) -> std::io::Result<ServerProc> {
    std::fs::create_dir_all(dir)?;
    let out_path = dir.join(format!("{}.stdout", tag));
    let err_path = dir.join(format!("{}.stderr", tag));
    let pairs: Vec<(String, String)> = raw_pairs.unwrap_or_else(|| cfg.pairs().into_iter().map(|(k, v)| (k.to_string(), v)).collect());
    let mut cmd = match (&cfg.pin, std::env::var("RTVERIF_WRAP_SERVER").is_ok()) {
        (Some(cpus), false) => {
            let mut c = Command::new("taskset");
            c.arg("-c").arg(cpus).arg(bins.join("roughenough-server"));
            c
        }
        _ => wrapped("RTVERIF_WRAP_SERVER", &bins.join("roughenough-server")),
    };
    if cfg.v6 {
        register_v6(cfg.port);
        if let Some(hp) = cfg.health_check_port {
            register_v6(hp);
        }
    }
    // the server's time zone must not matter to anything it signs or prints for clients
    const ZONES: [&str; 4] = ["UTC", "Asia/Tokyo", "America/New_York", "Europe/Berlin"];
    cmd.env("TZ", cfg.tz.clone().unwrap_or_else(|| ZONES[(cfg.port % 4) as usize].to_string()));
    for (k, _) in std::env::vars() {
        if k.starts_with("ROUGHENOUGH_") {
            cmd.env_remove(k);
        }
    }
    for (k, v) in &cfg.extra_env {
        cmd.env(k, v);
    }
    if cfg.via_env {
        cmd.arg("ENV");
        // decoys: settings under names without the documented prefix (not this server's settings)
        for (k, v) in [("PORT", "2002"), ("INTERFACE", "127.0.0.1"), ("SEED", "a32049da0ffde0ded92ce10a0230d35fe615ec8461c14986baa63fe3b3bac3db"), ("BATCH_SIZE", "13"), ("NUM_WORKERS", "3"), ("FAULT_PERCENTAGE", "11"), ("STATUS_INTERVAL", "77")] {
            cmd.env(k, v);
        }
        for (k, v) in &pairs {
            if let Some(hx) = v.strip_prefix("__hexbytes__") {
                // raw bytes (not necessarily UTF-8) as the variable's value
                use std::os::unix::ffi::OsStringExt;
                cmd.env(env_name(k), std::ffi::OsString::from_vec(crate::prng::unhex(hx).unwrap_or_default()));
            } else if !k.starts_with("__raw__") {
                cmd.env(env_name(k), v);
            }
        }
    } else {
        let path = dir.join(format!("{}.cfg", tag));
        let mut txt = String::new();
        // the order of the keys in the file carries no meaning: written order, reversed, or rotated
        // (files with verbatim lines keep their order: there it is part of the scenario)
        let mut pairs = pairs.clone();
        if !pairs.iter().any(|(k, _)| k.starts_with("__raw__")) {
            match cfg.port % 3 {
                1 => pairs.reverse(),
                2 => {
                    let n = pairs.len();
                    pairs.rotate_left(3 % n.max(1));
                }
                _ => {}
            }
        }
        for (k, v) in &pairs {
            if k.starts_with("__raw__") {
                // verbatim line(s), for malformed-file scenarios
                txt.push_str(v);
                txt.push('\n');
            } else if v.starts_with('[') {
                // a bracketed IPv6 address would be a YAML list unless quoted
                txt.push_str(&format!("{}: \"{}\"\n", k, v));
            } else {
                txt.push_str(&format!("{}: {}\n", k, v));
            }
        }
        std::fs::write(&path, txt)?;
        cmd.arg(&path);
    }
    // (the server's logger writes to stdout; panics go to stderr)
    cmd.stdin(Stdio::null()).stderr(std::fs::File::create(&err_path)?);
    if cfg.log_pipe {
        cmd.stdout(Stdio::piped());
    } else {
        cmd.stdout(std::fs::File::create(&out_path)?);
    }
    if !cfg.ignore_signals.is_empty() {
        use std::os::unix::process::CommandExt;
        let sigs = cfg.ignore_signals.clone();
        unsafe {
            cmd.pre_exec(move || {
                for s in &sigs {
                    libc::signal(*s, libc::SIG_IGN);
                }
                Ok(())
            });
        }
    }
    let mut child = cmd.spawn()?;
    let log_sink_open = std::sync::Arc::new(std::sync::atomic::AtomicBool::new(true));
    if cfg.log_pipe {
        if let Some(mut pipe) = child.stdout.take() {
            use std::io::{Read, Write};
            use std::os::unix::io::AsRawFd;
            unsafe {
                libc::fcntl(pipe.as_raw_fd(), libc::F_SETPIPE_SZ, 4096);
            }
            let open = log_sink_open.clone();
            let path = out_path.clone();
            std::thread::spawn(move || {
                let Ok(mut f) = std::fs::File::create(&path) else { return };
                let mut buf = [0u8; 4096];
                loop {
                    if !open.load(std::sync::atomic::Ordering::Relaxed) {
                        std::thread::sleep(Duration::from_millis(5));
                        continue;
                    }
                    match pipe.read(&mut buf) {
                        Ok(0) | Err(_) => break,
                        Ok(n) => {
                            let _ = f.write_all(&buf[..n]);
                        }
                    }
                }
            });
        }
    }
    Ok(ServerProc { child, cfg: cfg.clone(), out_path, err_path, started: Instant::now(), log_sink_open })
}

impl ServerProc {
    pub fn pid(&self) -> u32 {
        self.child.id()
    }

    pub fn output(&self) -> String {
        let mut s = std::fs::read_to_string(&self.out_path).unwrap_or_default();
        s.push_str(&String::from_utf8_lossy(&std::fs::read(&self.err_path).unwrap_or_default()));
        s
    }

    pub fn exited(&mut self) -> Option<std::process::ExitStatus> {
        self.child.try_wait().ok().flatten()
    }

    pub fn thread_names(&self) -> Vec<String> {
        let mut v = Vec::new();
        if let Ok(rd) = std::fs::read_dir(format!("/proc/{}/task", self.pid())) {
            for e in rd.flatten() {
                if let Ok(c) = std::fs::read_to_string(e.path().join("comm")) {
                    v.push(c.trim().to_string());
                }
            }
        }
        v
    }

    pub fn signal(&self, sig: i32) {
        unsafe {
            libc::kill(self.pid() as i32, sig);
        }
    }

    /// user + system CPU time of the process so far, in clock ticks
    pub fn cpu_ticks(&self) -> Option<u64> {
        let s = std::fs::read_to_string(format!("/proc/{}/stat", self.pid())).ok()?;
        let rest = &s[s.rfind(')')? + 2..];
        let f: Vec<&str> = rest.split_whitespace().collect();
        Some(f.get(11)?.parse::<u64>().ok()? + f.get(12)?.parse::<u64>().ok()?)
    }

    /// bytes waiting in the receive queues of the sockets bound to the server's UDP port
    pub fn rx_queued(&self) -> Option<u64> {
        let txt = std::fs::read_to_string("/proc/net/udp").ok()?;
        let want = format!(":{:04X}", self.cfg.port);
        let mut total = 0u64;
        for line in txt.lines().skip(1) {
            let cols: Vec<&str> = line.split_whitespace().collect();
            if cols.len() >= 5 && cols[1].ends_with(&want) {
                total += u64::from_str_radix(cols[4].split(':').nth(1)?, 16).ok()?;
            }
        }
        Some(total)
    }

    /// true iff every thread of the process is sleeping (state S: blocked in poll / sleep), i.e.
    /// none is running or waiting for a CPU
    pub fn all_threads_sleeping(&self) -> Option<bool> {
        let rd = std::fs::read_dir(format!("/proc/{}/task", self.pid())).ok()?;
        let mut any = false;
        for e in rd.flatten() {
            let s = std::fs::read_to_string(e.path().join("stat")).ok()?;
            let rest = &s[s.rfind(')')? + 2..];
            any = true;
            if !rest.starts_with('S') {
                return Some(false);
            }
        }
        if any {
            Some(true)
        } else {
            None
        }
    }

    /// At both ends of the window every thread of the server is blocked (not running, not waiting
    /// for a CPU) and its UDP receive queue holds the same number of bytes: the server is not
    /// working on anything and is not going to. Whatever it has not answered by now is lost (queue
    /// empty) or stranded (queue non-empty). This is evidence about the server's state, not about
    /// elapsed time: on an overloaded machine a slow server shows runnable threads or a queue
    /// that is still draining.
    pub fn quiescent(&self, window: Duration) -> bool {
        pid_quiescent(self.pid(), self.cfg.port, window)
    }

    /// wait (up to `cap`) until the server is quiescent for two consecutive windows
    pub fn wait_quiescent(&mut self, cap: Duration) -> bool {
        let t0 = Instant::now();
        let mut streak = 0;
        while t0.elapsed() < cap {
            if self.exited().is_some() {
                return true;
            }
            if self.quiescent(Duration::from_millis(150)) {
                streak += 1;
                if streak >= 2 {
                    return true;
                }
            } else {
                streak = 0;
            }
        }
        false
    }

    /// deliver the signal to one particular thread of the process (tgkill), as `kill <tid>` does
    pub fn signal_thread(&self, tid: i32, sig: i32) {
        unsafe {
            libc::syscall(libc::SYS_tgkill, self.pid() as i32, tid, sig);
        }
    }

    /// (tid, name) of every thread
    pub fn threads(&self) -> Vec<(i32, String)> {
        let mut v = Vec::new();
        if let Ok(rd) = std::fs::read_dir(format!("/proc/{}/task", self.pid())) {
            for e in rd.flatten() {
                if let Ok(tid) = e.file_name().to_string_lossy().parse::<i32>() {
                    let name = std::fs::read_to_string(e.path().join("comm")).unwrap_or_default().trim().to_string();
                    v.push((tid, name));
                }
            }
        }
        v
    }

    /// wait for exit up to `limit`; returns (status, time)
    pub fn wait_exit(&mut self, limit: Duration) -> Option<(std::process::ExitStatus, Duration)> {
        let t0 = Instant::now();
        loop {
            if let Ok(Some(st)) = self.child.try_wait() {
                return Some((st, t0.elapsed()));
            }
            if t0.elapsed() > limit {
                return None;
            }
            std::thread::sleep(Duration::from_millis(2));
        }
    }

    pub fn kill(&mut self) {
        let _ = self.child.kill();
        let _ = self.child.wait();
    }

    /// Ready = a probe request is answered with a reply that verifies under `pk`.
    pub fn wait_ready(&mut self, pk: &[u8], limit: Duration) -> Result<Duration, String> {
        let t0 = Instant::now();
        let mut rng = Rng::new(self.pid() as u64 ^ 0x5eed);
        let slow = std::env::var("RTVERIF_WRAP_SERVER").is_ok() || std::env::var("RTVERIF_SLOW_SERVER").is_ok();
        let limit = if slow { limit * 8 } else { limit };
        loop {
            if let Some(st) = self.exited() {
                return Err(format!("exited during start-up with {:?}", st));
            }
            if probe(self.cfg.port, pk, Proto::Classic, &mut rng, Duration::from_millis(if slow { 1500 } else { 150 })).is_ok() {
                return Ok(t0.elapsed());
            }
            if t0.elapsed() > limit {
                return Err("not serving within the readiness limit".into());
            }
        }
    }
}

impl Drop for ServerProc {
    fn drop(&mut self) {
        self.kill();
    }
}

pub fn make_request(rng: &mut Rng, proto: Proto, srv: Option<&[u8]>) -> (Vec<u8>, Vec<u8>) {
    let nonce = rng.bytes(proto.nonce_len());
    let size = 1024 + 4 * rng.below(120) as usize;
    let pkt = match proto {
        Proto::Classic => req::classic_request(&nonce, size),
        Proto::Ietf => {
            // mostly the plain list; one request in four offers other versions as well, draft-13
            // anywhere among the first four entries (clients that speak several drafts do that)
            let vers: Vec<u32> = match rng.below(8) {
                0 => vec![0x8000_000b, DRAFT13],
                1 => vec![1, 0x8000_000b, DRAFT13, 0x8000_000d],
                _ => vec![DRAFT13],
            };
            req::ietf_request(&vers, srv, &nonce, size)
        }
    };
    (pkt, nonce)
}

/// one request from a fresh socket; Ok(verified) / Err(reason)
pub fn probe(port: u16, pk: &[u8], proto: Proto, rng: &mut Rng, timeout: Duration) -> Result<Verified, String> {
    let s = UdpSocket::bind(local_any(port)).map_err(|e| e.to_string())?;
    probe_on(&s, port, pk, proto, rng, timeout)
}

pub fn probe_on(s: &UdpSocket, port: u16, pk: &[u8], proto: Proto, rng: &mut Rng, timeout: Duration) -> Result<Verified, String> {
    let (pkt, nonce) = make_request(rng, proto, None);
    let addr: SocketAddr = srv_addr(port);
    s.set_read_timeout(Some(timeout)).unwrap();
    s.send_to(&pkt, addr).map_err(|e| format!("send: {}", e))?;
    let mut buf = vec![0u8; 4096];
    let n = match s.recv_from(&mut buf) {
        Ok((n, _)) => n,
        Err(e) => return Err(format!("no reply: {}", e.kind())),
    };
    let view = ReqView { proto, packet: &pkt, nonce };
    verify_response(&view, &buf[..n], pk, Opts { strict: true }).map_err(|e| format!("reply does not verify: {}", e))
}

/// run a command to completion with a watchdog; returns (exit code or None if killed, stdout, stderr)
pub fn run_with_timeout(mut cmd: Command, limit: Duration) -> std::io::Result<(Option<i32>, Vec<u8>, Vec<u8>, bool)> {
    cmd.stdin(Stdio::null()).stdout(Stdio::piped()).stderr(Stdio::piped());
    let mut child = cmd.spawn()?;
    let mut so = child.stdout.take().unwrap();
    let mut se = child.stderr.take().unwrap();
    let h1 = std::thread::spawn(move || {
        let mut v = Vec::new();
        let _ = so.read_to_end(&mut v);
        v
    });
    let h2 = std::thread::spawn(move || {
        let mut v = Vec::new();
        let _ = se.read_to_end(&mut v);
        v
    });
    let t0 = Instant::now();
    let mut timed_out = false;
    let status = loop {
        if let Some(st) = child.try_wait()? {
            break Some(st);
        }
        if t0.elapsed() > limit {
            let _ = child.kill();
            let _ = child.wait();
            timed_out = true;
            break None;
        }
        std::thread::sleep(Duration::from_millis(1));
    };
    let out = h1.join().unwrap_or_default();
    let err = h2.join().unwrap_or_default();
    Ok((status.and_then(|s| s.code()), out, err, timed_out))
}


/// Command for `exe`, optionally under a wrapper given in the environment (e.g. valgrind)
pub fn wrapped(var: &str, exe: &Path) -> Command {
    match std::env::var(var) {
        Ok(w) if !w.trim().is_empty() => {
            let mut parts = w.split_whitespace();
            let mut c = Command::new(parts.next().unwrap());
            for p in parts {
                c.arg(p);
            }
            c.arg(exe);
            c
        }
        _ => Command::new(exe),
    }
}

/// number of error blocks valgrind memcheck (-q) printed
pub fn valgrind_errors(text: &str) -> usize {
    text.lines().filter(|l| l.starts_with("==") && (l.contains("Invalid ") || l.contains("uninitialised") || l.contains("Conditional jump") || l.contains("Source and destination overlap") || l.contains("Mismatched free"))).count()
}
