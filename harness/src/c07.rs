//! C07 — the server answers only well-formed 1024..=1500-byte requests and never amplifies.
//! One datagram per harness socket per round, so every reply is attributed to the datagram
//! that elicited it by the socket it arrives on.

use serde_json::json;

use crate::c09::{round_replay, short};
use crate::driver::*;
use crate::inproc::HConfig;
use crate::out::{Ctx, Out};
use crate::prng::{fnv64, Rng};
use crate::refimpl::crypto::DRAFT13;
use crate::refimpl::req::{self, Expect};

fn len_class(n: usize) -> &'static str {
    match n {
        0 => "len=0",
        1..=1022 => "len=1..1022",
        1023 => "len=1023",
        1024 => "len=1024",
        1025..=1499 => "len=1025..1499",
        1500 => "len=1500",
        1501 => "len=1501",
        _ => "len>1501",
    }
}

/// only-if direction + no amplification, on a round where each socket sent <= 1 datagram
pub fn check_round(out: &mut Out, prop: &str, r: &Round, replay: &dyn Fn() -> serde_json::Value) {
    let mut per_sock: std::collections::HashMap<usize, Vec<&Sent>> = std::collections::HashMap::new();
    for s in &r.sent {
        per_sock.entry(s.sock).or_default().push(s);
    }
    for rep in &r.replies {
        let sent = per_sock.get(&rep.sock).cloned().unwrap_or_default();
        out.obs("replies_attributed", 1);
        if sent.is_empty() {
            out.violation(&format!("{} reply-to-silent-socket", prop), "a socket that sent nothing received a datagram", replay());
            continue;
        }
        if sent.len() > 1 {
            // attribution by socket is ambiguous: only the aggregate rules apply
            let maxlen = sent.iter().map(|s| s.data.len()).max().unwrap();
            if sent.iter().all(|s| s.expect == Expect::MustNot) {
                out.violation(&format!("{} reply-to-rejectable-datagram multi", prop), "socket sent only rejectable datagrams but got a reply", replay());
            }
            if rep.data.len() > maxlen {
                out.violation(&format!("{} amplification multi", prop), &format!("reply of {} bytes exceeds every request of its socket (max {})", rep.data.len(), maxlen), replay());
            }
            continue;
        }
        let s = sent[0];
        if s.expect == Expect::MustNot {
            let why = if s.data.len() < req::MIN_REQ || s.data.len() > req::MAX_REQ { "size-outside-window" } else if s.info.is_none() { "malformed" } else { "version-or-srv" };
            out.violation(
                &format!("{} reply-to-rejectable-datagram {} {}", prop, why, len_class(s.data.len())),
                &format!("datagram of {} bytes ({}) is not a well-formed in-window request, yet a {}-byte reply came back", s.data.len(), short(&s.data), rep.data.len()),
                replay(),
            );
        }
        if rep.data.len() > s.data.len() {
            let nl = s.info.as_ref().map(|i| i.nonce.len()).unwrap_or(0);
            let proto = s.info.as_ref().map(|i| i.proto.name()).unwrap_or("?");
            let std_nonce = s.info.as_ref().map(|i| i.nonce.len() == i.proto.nonce_len()).unwrap_or(false);
            out.violation(
                &format!("{} amplification proto={} nonce-standard-length={}", prop, proto, std_nonce),
                &format!("{}-byte request (nonce {} bytes) elicited a {}-byte reply", s.data.len(), nl, rep.data.len()),
                replay(),
            );
        } else {
            out.obs("replies_not_longer_than_request", 1);
            out.obs_max("reply_to_request_ratio_permille", (rep.data.len() * 1000 / s.data.len().max(1)) as i64);
        }
    }
    for s in &r.sent {
        out.obs(&format!("sent_{}", len_class(s.data.len())), 1);
        match s.expect {
            Expect::MustNot => out.obs("datagrams_must_not_answer", 1),
            Expect::Must => out.obs("requests_must_answer", 1),
            Expect::May => out.obs("datagrams_may_answer", 1),
        }
    }
}

fn run_rounds(out: &mut Out, cfg: &HConfig, d: &mut Driver, dgrams: Vec<Dgram>, per_round: usize) -> bool {
    let mut it = dgrams.into_iter().peekable();
    while it.peek().is_some() {
        let chunk: Vec<Dgram> = it.by_ref().take(per_round).collect();
        d.ensure_socks(chunk.len());
        for c in &chunk {
            out.obs(&format!("class_{}", c.class), 1);
        }
        let sends: Vec<(usize, Vec<u8>)> = chunk.into_iter().enumerate().map(|(i, c)| (i, c.data)).collect();
        let rounds = vec![sends.clone()];
        let r = d.round(sends, false);
        let rp = || round_replay(cfg, &rounds);
        if let Some(p) = &r.panic {
            // C08 carries this verdict; here the scenario just cannot continue
            out.note(&format!("server panicked during a C07 round (see C08): {}", crate::c05::panic_site(p)));
            out.inconclusive("server panicked (C08's verdict)");
            return false;
        }
        if r.sentinel_replies == 0 {
            out.inconclusive("sentinel unanswered");
            return false;
        }
        out.obs("rounds", 1);
        check_round(out, "C07", &r, &rp);
    }
    true
}

pub fn run(ctx: &Ctx, out: &mut Out) {
    let mut rng = ctx.rng("C07");
    crate::inproc::install_shard_logger(ctx.shard, out);
    if let Some(r) = &ctx.replay {
        crate::c09::replay_history(out, "C07", r);
        return;
    }
    let scen = ctx.share(2_400, 24_000);
    for i in 0..scen {
        let gi = i * ctx.nshards + ctx.shard;
        let mut cfg = HConfig::new(&rng.bytes(32));
        cfg.batch_size = if gi < 64 { gi as u8 + 1 } else { rng.range(1, 64) as u8 };
        let Ok(mut d) = Driver::new(cfg.clone(), 64) else {
            out.inconclusive("server start failed");
            continue;
        };
        let srv = d.srv_value.clone();
        let mut dg: Vec<Dgram> = Vec::new();
        match gi % 7 {
            6 => {
                // stale receive buffer: a long datagram with useful padding, then short malformed
                // ones whose offsets point past their own end
                for _ in 0..8 {
                    let (first, seconds) = stale_buffer_probe(&mut rng);
                    dg.push(Dgram { data: first, class: "stale-buffer-primer" });
                    for sdg in seconds {
                        dg.push(Dgram { data: sdg, class: "stale-buffer-offsets-past-end" });
                    }
                }
                run_rounds(out, &cfg, &mut d, dg, 13);
                out.obs("stale_buffer_scenarios", 1);
            }
            0 => {
                // full batches of minimum-size requests -> maximum-depth paths for this batch size
                for _ in 0..3 {
                    for _ in 0..cfg.batch_size {
                        let classic = rng.chance(1, 2);
                        let d0 = if classic { req::classic_request(&rng.bytes(64), 1024) } else { req::ietf_request(&[DRAFT13], Some(&srv), &rng.bytes(32), 1024) };
                        dg.push(Dgram { data: d0, class: "full-batch-min-size" });
                    }
                }
                let per = cfg.batch_size as usize;
                run_rounds(out, &cfg, &mut d, dg, per);
                out.obs("full_batch_scenarios", 1);
            }
            1 => {
                // every aligned nonce length 0..=1480 (quick: stride), both protocols
                let stride = if ctx.thorough { 4 } else { 28 };
                let mut nl = (gi as usize / 6 % 7) * 4;
                while nl <= 1480 {
                    let n = rng.bytes(nl);
                    let sz = std::cmp::max(1024, ((nl + 80 + 3) / 4 * 4).min(1500));
                    dg.push(Dgram { data: req::classic_request(&n, sz), class: "nonce-length-sweep" });
                    dg.push(Dgram { data: req::ietf_request(&[DRAFT13], None, &n, sz), class: "nonce-length-sweep" });
                    nl += stride;
                }
                run_rounds(out, &cfg, &mut d, dg, 48);
            }
            2 => {
                // every frame-length value around the true one, and well-formed requests at the
                // aligned sizes just outside the window
                for sz in [1024usize, 1028, 1500] {
                    let base = req::ietf_request(&[DRAFT13], None, &rng.bytes(32), sz);
                    let real = (sz - 12) as i64;
                    for delta in -24i64..=24 {
                        let mut x = base.clone();
                        x[8..12].copy_from_slice(&((real + delta) as u32).to_le_bytes());
                        dg.push(Dgram { data: x, class: if delta == 0 { "frame-length-true" } else { "frame-length-sweep" } });
                    }
                }
                for sz in (960..=1100usize).step_by(4).chain((1440..=1560).step_by(4)) {
                    dg.push(Dgram { data: req::classic_request(&rng.bytes(64), sz), class: "size-sweep" });
                    dg.push(Dgram { data: req::ietf_request(&[DRAFT13], None, &rng.bytes(32), sz), class: "size-sweep" });
                }
                // unaligned sizes inside the window cannot be well-formed
                for sz in [1025usize, 1026, 1027, 1499, 1498] {
                    let mut x = req::classic_request(&rng.bytes(64), 1500);
                    x.truncate(sz);
                    dg.push(Dgram { data: x, class: "unaligned-size" });
                }
                run_rounds(out, &cfg, &mut d, dg, 48);
            }
            _ => {
                for _ in 0..(if ctx.thorough { 400 } else { 192 }) {
                    dg.push(hostile(&mut rng, &srv));
                }
                run_rounds(out, &cfg, &mut d, dg, 32);
            }
        }
        out.case(fnv64(&cfg.seed) ^ gi, true);
        if out.samples.len() < 2 {
            out.sample(json!({"scenario": gi % 7, "batch_size": cfg.batch_size}));
        }
        if !ctx.time_left() {
            out.note("scenario loop cut by wall budget");
            break;
        }
    }
    out.floor("datagrams_must_not_answer", 1_000);
    out.floor("replies_attributed", 500);
    out.floor("sent_len>1501", 50);
    out.floor("sent_len=1024", 200);
    out.floor("full_batch_scenarios", 4);
    out.floor("stale_buffer_scenarios", 4);
}
