//! Monitors on the stepped in-process server:
//!   C09 exactly one response per accepted request, to its sender, for its own nonce
//!   C02 every response verifies under the independent verifier (incl. fault injection share)
//!   C17 (mode stats-server) recorder totals equal the traffic actually served
//! Histories are recorded at the socket boundary and checked after every round.

use std::collections::HashMap;

use serde_json::json;

use crate::driver::*;
use crate::inproc::{reply_proto, HConfig};
use crate::out::{Ctx, Out};
use crate::prng::{fnv64, hex, Rng};
use crate::refimpl::crypto::Proto;
use crate::refimpl::req::Expect;

pub fn short(b: &[u8]) -> String {
    if b.len() <= 48 {
        hex(b)
    } else {
        format!("{}..({}B)", hex(&b[..48]), b.len())
    }
}

pub fn round_replay(cfg: &HConfig, rounds: &[Vec<(usize, Vec<u8>)>]) -> serde_json::Value {
    json!({"kind":"server-history","seed":hex(&cfg.seed),"batch_size":cfg.batch_size,"fault_percentage":cfg.fault_percentage,
           "client_stats": cfg.client_stats,
           "rounds": rounds.iter().map(|r| r.iter().map(|(s,d)| json!([s, hex(d)])).collect::<Vec<_>>()).collect::<Vec<_>>()})
}

/// Batch structure over the verified replies of one round.
pub fn check_batches(out: &mut Out, prop: &str, r: &Round, batch_size: u8, replay: &dyn Fn() -> serde_json::Value) {
    let mut groups: HashMap<Vec<u8>, Vec<&Reply>> = HashMap::new();
    for rep in &r.replies {
        if let Some(v) = &rep.verified {
            groups.entry(v.srep.clone()).or_default().push(rep);
        }
    }
    for (_, g) in groups {
        // Replies sharing one SREP were signed together -- or are answers to byte-identical
        // requests signed in separate single-leaf batches within the same clock tick (same
        // leaf => same root). So a batch is the set of distinct INDX values.
        let mut by_indx: HashMap<u32, Vec<&Reply>> = HashMap::new();
        for rep in &g {
            by_indx.entry(rep.verified.as_ref().unwrap().indx).or_default().push(rep);
        }
        let n = by_indx.len();
        out.obs("batches_seen", 1);
        out.obs(&format!("batch_size_{:02}", n), 1);
        let p0 = reply_proto(&g[0].data);
        if n >= 2 {
            out.obs(&format!("batches_ge2_{}", p0.name()), 1);
        }
        if n > batch_size as usize {
            out.violation(&format!("{} batch larger-than-batch_size", prop), &format!("{} positions share one signed response, batch_size {}", n, batch_size), replay());
        }
        for (indx, reps) in by_indx {
            // one position, several replies: only legitimate for identical leaves
            let leaves: std::collections::HashSet<Vec<u8>> = reps
                .iter()
                .filter_map(|rep| rep.matched.map(|i| {
                    let s = &r.sent[i];
                    match s.info.as_ref().map(|x| x.proto) {
                        Some(Proto::Classic) => s.info.as_ref().unwrap().nonce.clone(),
                        _ => s.data.clone(),
                    }
                }))
                .collect();
            if leaves.len() > 1 {
                out.violation(&format!("{} batch duplicate-INDX", prop), &format!("replies to different requests share INDX {} of one signed batch", indx), replay());
            } else if reps.len() > 1 {
                out.obs("identical_requests_same_srep", 1);
            }
        }
        for rep in &g {
            let v = rep.verified.as_ref().unwrap();
            if reply_proto(&rep.data) != p0 {
                out.violation(&format!("{} batch mixes-protocols", prop), "classic and IETF replies share one SREP", replay());
            }
            out.obs_max("path_depth", v.depth as i64);
        }
    }
}

/// The exactly-once check of one round. Returns number of verified replies.
pub fn check_exactly_once(out: &mut Out, prop: &str, r: &Round, replay: &dyn Fn() -> serde_json::Value) -> usize {
    let mut ok = 0;
    let mut matched_for: Vec<usize> = vec![0; r.sent.len()];
    for rep in &r.replies {
        out.obs("replies_received", 1);
        match rep.matched {
            Some(i) => {
                ok += 1;
                matched_for[i] += 1;
                out.obs("replies_verified", 1);
                out.obs(&format!("replies_verified_{}", reply_proto(&rep.data).name()), 1);
            }
            None => {
                let sock_sent: Vec<&Sent> = r.sent.iter().filter(|s| s.sock == rep.sock).collect();
                let only_invalid = sock_sent.iter().all(|s| s.expect == Expect::MustNot);
                let kind = if sock_sent.is_empty() || only_invalid {
                    "reply-to-socket-that-sent-no-valid-request"
                } else if sock_sent.iter().filter(|s| s.info.as_ref().map(|i| i.proto) == Some(reply_proto(&rep.data))).count() == 0 {
                    "reply-in-other-protocol"
                } else {
                    "reply-not-valid-for-any-request-of-its-socket"
                };
                let why = rep.reason.clone().unwrap_or_default();
                out.violation(
                    &format!("{} {} why={}", prop, kind, reason_class(&why)),
                    &format!("socket {} received {} which verifies for none of the requests it sent: {}", rep.sock, short(&rep.data), why),
                    replay(),
                );
            }
        }
    }
    if r.late_replies > 0 && r.panic.is_none() {
        out.violation(
            &format!("{} replies-stranded-until-further-traffic", prop),
            &format!("{} of {} replies were sent only after an unrelated later datagram arrived; with no further traffic those requests would have stayed unanswered ({} datagrams in the burst)", r.late_replies, r.replies.len(), r.sent.len()),
            replay(),
        );
    }
    for (i, s) in r.sent.iter().enumerate() {
        match s.expect {
            Expect::Must => {
                out.obs("requests_must_answer", 1);
                if matched_for[i] == 0 {
                    if r.drops_moved {
                        out.inconclusive("kernel drop counter moved");
                    } else {
                        let p = s.info.as_ref().map(|i| i.proto.name()).unwrap_or("?");
                        out.violation(&format!("{} no-reply-to-accepted-request proto={}", prop, p), &format!("valid {} request {} from socket {} got no verifying reply", p, short(&s.data), s.sock), replay());
                    }
                }
            }
            Expect::MustNot => {
                out.obs("datagrams_must_not_answer", 1);
                if matched_for[i] > 0 {
                    out.violation(&format!("{} reply-to-rejectable-datagram", prop), &format!("datagram {} must not be answered but was", short(&s.data)), replay());
                }
            }
            Expect::May => out.obs("datagrams_may_answer", 1),
        }
    }
    ok
}

/// With fault injection on, replies may be deliberately invalid; what must still hold is the
/// count: per socket, at least as many datagrams as requests that must be answered and at
/// most as many as requests that may be; none on sockets that sent only rejectable datagrams.
pub fn check_counts_only(out: &mut Out, prop: &str, r: &Round, replay: &dyn Fn() -> serde_json::Value) {
    let mut must: HashMap<usize, usize> = HashMap::new();
    let mut may: HashMap<usize, usize> = HashMap::new();
    for s in &r.sent {
        if s.sock == SPOOF_PORT0 {
            continue;
        }
        match s.expect {
            Expect::Must => {
                *must.entry(s.sock).or_default() += 1;
                *may.entry(s.sock).or_default() += 1;
            }
            Expect::May => *may.entry(s.sock).or_default() += 1,
            Expect::MustNot => {}
        }
    }
    let mut got: HashMap<usize, usize> = HashMap::new();
    for rep in &r.replies {
        *got.entry(rep.sock).or_default() += 1;
        out.obs("replies_received", 1);
        out.obs("replies_counted_under_fault_injection", 1);
    }
    let socks: std::collections::HashSet<usize> = must.keys().chain(may.keys()).chain(got.keys()).copied().collect();
    for s in socks {
        let g = got.get(&s).copied().unwrap_or(0);
        let lo = must.get(&s).copied().unwrap_or(0);
        let hi = may.get(&s).copied().unwrap_or(0);
        if (g < lo && !r.drops_moved) || g > hi {
            out.violation(
                &format!("{} datagram-count-differs under-fault-injection {}", prop, if g < lo { "too-few" } else { "too-many" }),
                &format!("socket {} sent {} requests that must be answered (at most {} answerable) and received {} datagrams", s, lo, hi, g),
                replay(),
            );
        }
    }
    if r.late_replies > 0 && r.panic.is_none() {
        out.violation(&format!("{} replies-stranded-until-further-traffic", prop), "replies arrived only after later traffic", replay());
    }
}

/// stable class of a verifier reason, for signatures
pub fn reason_class(why: &str) -> &'static str {
    if why.contains("do not recompute ROOT") {
        "merkle-binding"
    } else if why.contains("PATH length") {
        "path-width"
    } else if why.contains("ROOT is") {
        "root-width"
    } else if why.contains("CERT.SIG does not verify") {
        "cert-signature"
    } else if why.contains("SIG does not verify") {
        "srep-signature"
    } else if why.contains("NONC echo") {
        "nonce-echo"
    } else if why.contains("does not decode") {
        "codec"
    } else if why.contains("frame") {
        "framing"
    } else if why.contains("INDX") {
        "index"
    } else if why.contains("VER") {
        "version-fields"
    } else if why.contains("lacks") {
        "missing-field"
    } else if why.contains("delegation window") {
        "window"
    } else if why.contains("no request of this protocol") {
        "no-candidate"
    } else {
        "other"
    }
}

fn burst_size(rng: &mut Rng, b: usize) -> usize {
    // occasionally more than the server may answer in one call (64 batches), while the whole
    // burst still fits the 4 MiB receive buffer
    if b <= 20 && rng.chance(1, 6) {
        return 64 * b + rng.range(1, 2 * b as u64 + 8) as usize;
    }
    let v = match rng.below(8) {
        0 => 1,
        1 => b.saturating_sub(1).max(1),
        2 => b,
        3 => b + 1,
        4 => 2 * b,
        5 => 3 * b + 1,
        _ => rng.range(1, 2 * b as u64 + 2) as usize,
    };
    v.min(250)
}

/// One history: a fresh server, several rounds (bursts) of interleaved datagrams.
fn history(ctx: &Ctx, out: &mut Out, rng: &mut Rng, prop: &str, idx: u64) {
    let c02 = prop == "C02";
    let stats = prop == "C17";
    let mut cfg = HConfig::new(&rng.bytes(32));
    cfg.batch_size = if idx < 64 { idx as u8 + 1 } else { rng.range(1, 64) as u8 };
    let timer = stats && idx % 8 >= 6;
    // a share of the timer histories has a queue as small as the real binary's and nobody drains it
    // until the end: older snapshots are evicted (lossy by design), so only "never more than the
    // traffic" can be demanded there
    let small_queue = timer && idx % 16 >= 14;
    if timer {
        // status timer every status_interval/10 = 100 ms
        cfg.status_interval = std::time::Duration::from_secs(1);
    }
    if small_queue {
        cfg.queue_cap = 2;
        cfg.client_stats = true;
    }
    if stats {
        cfg.client_stats = idx % 2 == 1;
        if cfg.client_stats {
            cfg.persist = Some(ctx.scratch.clone());
        }
    }
    // one history in eight runs with fault injection on: the deliberately corrupted replies need
    // not verify, but exactly one datagram per accepted request must still reach its sender
    // health listener on a share of the servers (see Driver::round: a connection arrives between
    // two process_events calls when the burst is large)
    if !c02 && idx % 4 == 2 {
        cfg.health_check_port = Some(crate::procs::free_port(true));
        if idx % 8 == 2 && idx >= 64 {
            cfg.batch_size = *rng.pick(&[1u8, 2, 3]);
        }
        out.obs("histories_with_health_listener", 1);
    }
    let greased = !c02 && idx % 8 == 5;
    if greased {
        cfg.fault_percentage = *rng.pick(&[1u8, 10, 50]);
        out.obs("histories_with_fault_injection", 1);
    }
    let nsocks = rng.range(2, 64) as usize;
    let mut d = match Driver::new(cfg.clone(), nsocks) {
        Ok(d) => d,
        Err(e) => {
            out.inconclusive(&format!("server start failed: {}", e));
            return;
        }
    };
    let srv = d.srv_value.clone();
    let b = cfg.batch_size as usize;
    // mostly short histories; one in sixteen keeps one server busy for many bursts
    let nrounds = if !c02 && idx % 16 == 9 { rng.range(30, 80) as usize } else { rng.range(1, if c02 { 12 } else { 6 }) as usize };
    if nrounds >= 30 {
        out.obs("long_histories", 1);
    }
    let mut rounds: Vec<Vec<(usize, Vec<u8>)>> = Vec::new();
    let mut earlier_nonces: Vec<(Proto, Vec<u8>, usize)> = Vec::new();
    let mut total_sent = 0usize;
    let mut tot = Totals::default();
    let mut verified_here = 0usize;
    let mut socks_used = std::collections::HashSet::new();
    for _ in 0..nrounds {
        let k = burst_size(rng, b);
        let mut sends: Vec<(usize, Vec<u8>)> = Vec::with_capacity(k);
        for _ in 0..k {
            let s = rng.usize_below(nsocks);
            let dg = match rng.below(if c02 { 4 } else { 10 }) {
                0 | 1 => valid_classic(rng).data,
                2 | 3 => valid_ietf(rng, Some(&srv)).data,
                4 if !earlier_nonces.is_empty() => {
                    // same nonce as an earlier request, from a (probably) different socket
                    let (p, n, _) = rng.pick(&earlier_nonces).clone();
                    out.obs("duplicate_nonce_requests", 1);
                    match p {
                        Proto::Classic => crate::refimpl::req::classic_request(&n, aligned_size(rng)),
                        Proto::Ietf => crate::refimpl::req::ietf_request(&[crate::refimpl::crypto::DRAFT13], None, &n, aligned_size(rng)),
                    }
                }
                5 if !sends.is_empty() => {
                    // the very same datagram twice from one socket
                    let (s0, d0) = rng.pick(&sends).clone();
                    out.obs("repeated_datagrams", 1);
                    sends.push((s0, d0.clone()));
                    d0
                }
                _ if c02 => valid_ietf(rng, Some(&srv)).data,
                _ => hostile(rng, &srv).data,
            };
            if let Some(info) = crate::refimpl::req::parse_request(&dg) {
                if earlier_nonces.len() < 64 {
                    earlier_nonces.push((info.proto, info.nonce, s));
                }
            }
            socks_used.insert(s);
            // now and then a valid request arrives with UDP source port 0: the reply to it cannot
            // be sent (send fault); everything else in its batch must be unaffected
            if !c02 && d.raw.is_some() && rng.chance(1, 40) {
                let sp = if rng.chance(1, 2) { valid_classic(rng).data } else { valid_ietf(rng, Some(&srv)).data };
                sends.push((SPOOF_PORT0, sp));
                out.obs("spoofed_port0_requests", 1);
            }
            sends.push((s, dg));
        }
        total_sent += sends.len();
        rounds.push(sends.clone());
        let r = d.round(sends, true);
        let rp = || round_replay(&cfg, &rounds);
        if let Some(p) = &r.panic {
            out.violation(&format!("{} server-panic {}", prop, crate::c05::panic_site(p)), p, rp());
            break;
        }
        if r.sentinel_replies == 0 {
            out.violation(&format!("{} sentinel-unanswered", prop), "a valid request sent after the burst got no reply", rp());
            break;
        }
        out.obs("rounds", 1);
        out.obs("datagrams_sent", r.sent.len() as i64);
        if greased {
            check_counts_only(out, prop, &r, &rp);
        } else {
            verified_here += check_exactly_once(out, prop, &r, &rp);
            check_batches(out, prop, &r, cfg.batch_size, &rp);
        }
        if r.drops_moved {
            out.inconclusive("kernel drop counter moved");
            break;
        }
        tot.add(&r);
        if stats {
            if timer {
                // let the status timer (100 ms) fire between traffic and observation
                std::thread::sleep(std::time::Duration::from_millis(130));
                let _ = d.srv.step(1);
                out.obs("stats_timer_ticks_awaited", 1);
            }
            if small_queue {
                // do not drain between rounds
                continue;
            }
            check_stats(out, &mut d, &mut tot, &rp);
        }
    }
    if small_queue && stats {
        let rp = || round_replay(&cfg, &rounds);
        check_stats_upper_bound(out, &mut d, &tot, &rp);
    }
    out.case(fnv64(&cfg.seed) ^ idx, socks_used.len() >= 3 && total_sent >= 3);
    if socks_used.len() >= 3 {
        out.obs("histories_ge3_sockets", 1);
    }
    out.obs("histories", 1);
    if out.samples.len() < 3 && total_sent <= 12 {
        out.sample(json!({"batch_size": cfg.batch_size, "sockets": nsocks, "rounds": rounds.iter().map(|r| r.iter().map(|(s,d)| json!({"socket":s,"datagram":short(d)})).collect::<Vec<_>>()).collect::<Vec<_>>(), "verified_replies": verified_here}));
    }
}

/// with evictions possible: what is still in the recorder plus what is still in the queue can
/// only be LESS than the traffic, never more (nothing may be published twice)
pub fn check_stats_upper_bound(out: &mut Out, d: &mut Driver, t: &Totals, replay: &dyn Fn() -> serde_json::Value) {
    let Some(s) = d.srv.stats() else { return };
    let (mut valid, mut invalid, mut responses, mut bytes) = (s.valid, s.invalid, s.responses, s.bytes);
    while let Some(snapshot) = d.srv.queue.pop() {
        for c in snapshot {
            valid += (c.rfc_requests + c.classic_requests) as u64;
            invalid += c.invalid_requests as u64;
            responses += (c.rfc_responses_sent + c.classic_responses_sent) as u64;
            bytes += c.bytes_sent as u64;
        }
    }
    out.obs("stats_upper_bound_checks", 1);
    if valid + invalid > t.datagrams || responses > t.replies || bytes > t.bytes {
        out.violation(
            "C17 server-recorder counts-more-than-traffic small-queue",
            &format!("recorder + queued snapshots hold valid {} + invalid {} of {} datagrams, {} of {} responses, {} of {} bytes: something was counted or published twice", valid, invalid, t.datagrams, responses, t.replies, bytes, t.bytes),
            replay(),
        );
    }
}

#[derive(Default)]
pub struct Totals {
    pub datagrams: u64,
    pub replies: u64,
    pub replies_classic: u64,
    pub replies_ietf: u64,
    pub bytes: u64,
    pub spoofed: u64,
    pub published: crate::inproc::StatsSnap,
}

impl Totals {
    pub fn add(&mut self, r: &Round) {
        self.spoofed += r.sent.iter().filter(|s| s.sock == SPOOF_PORT0).count() as u64;
        self.datagrams += r.sent.len() as u64 + r.sentinel_sent as u64;
        self.replies += r.replies.len() as u64 + r.sentinel_replies as u64;
        self.bytes += r.replies.iter().map(|x| x.data.len() as u64).sum::<u64>() + r.sentinel_bytes as u64;
        for rep in &r.replies {
            match reply_proto(&rep.data) {
                Proto::Classic => self.replies_classic += 1,
                Proto::Ietf => self.replies_ietf += 1,
            }
        }
        self.replies_classic += r.sentinel_replies as u64;
    }
}

/// C17 (3): the recorder, read through the hook at a quiescent point, equals the traffic
pub fn check_stats(out: &mut Out, d: &mut Driver, t: &mut Totals, replay: &dyn Fn() -> serde_json::Value) {
    let Some(mut s) = d.srv.stats() else {
        out.inconclusive("stats hook unavailable");
        return;
    };
    // what the status timer already published to the queue (per-client mode clears the recorder
    // after publishing) belongs to the totals as well
    while let Some(snapshot) = d.srv.queue.pop() {
        out.obs("stats_snapshots_popped_from_queue", 1);
        for c in snapshot {
            t.published.rfc_req += c.rfc_requests as u64;
            t.published.classic_req += c.classic_requests as u64;
            t.published.invalid += c.invalid_requests as u64;
            t.published.rfc_resp += c.rfc_responses_sent as u64;
            t.published.classic_resp += c.classic_responses_sent as u64;
            t.published.bytes += c.bytes_sent as u64;
            t.published.failed_send += c.failed_send_attempts as u64;
        }
    }
    s.rfc_req += t.published.rfc_req;
    s.classic_req += t.published.classic_req;
    s.valid += t.published.rfc_req + t.published.classic_req;
    s.invalid += t.published.invalid;
    s.rfc_resp += t.published.rfc_resp;
    s.classic_resp += t.published.classic_resp;
    s.responses += t.published.rfc_resp + t.published.classic_resp;
    s.bytes += t.published.bytes;
    s.failed_send += t.published.failed_send;
    out.obs("stats_snapshots_compared", 1);
    let mut bad = Vec::new();
    if s.valid + s.invalid != t.datagrams {
        bad.push(format!("valid {} + invalid {} != datagrams received {}", s.valid, s.invalid, t.datagrams));
    }
    if s.responses != t.replies {
        bad.push(format!("responses recorded {} != datagrams the harness received {}", s.responses, t.replies));
    }
    if s.failed_send > t.spoofed {
        bad.push(format!("{} failed sends recorded but only {} datagrams had an unreachable source", s.failed_send, t.spoofed));
    }
    if s.valid != s.responses + s.failed_send {
        bad.push(format!("valid requests {} != responses {} + failed sends {}", s.valid, s.responses, s.failed_send));
    }
    if s.classic_resp != t.replies_classic || s.rfc_resp != t.replies_ietf {
        bad.push(format!("per-protocol responses recorded classic {} ietf {} != received classic {} ietf {}", s.classic_resp, s.rfc_resp, t.replies_classic, t.replies_ietf));
    }
    if s.bytes != t.bytes {
        bad.push(format!("bytes recorded {} != bytes received {}", s.bytes, t.bytes));
    }
    if s.failed_send == 0 && s.valid != s.responses {
        bad.push(format!("valid requests {} != responses {} with no failed sends", s.valid, s.responses));
    }
    if s.failed_send == 0 && (s.classic_req != s.classic_resp || s.rfc_req != s.rfc_resp) {
        bad.push(format!("per-protocol requests classic {} ietf {} != responses classic {} ietf {}", s.classic_req, s.rfc_req, s.classic_resp, s.rfc_resp));
    }
    if s.valid != s.classic_req + s.rfc_req {
        bad.push("total_valid_requests != classic + rfc".into());
    }
    if !bad.is_empty() {
        out.violation(&format!("C17 server-recorder differs-from-traffic client_stats={}", d.cfg.client_stats), &bad.join("; "), replay());
    }
}

/// C17 (3b): one publication interval with more distinct client addresses than any chunking of
/// the snapshot could fit into the queue: 20 000 datagrams from 20 000 loopback source addresses
/// to a server with per-client statistics and a queue as small as a one-worker binary's; after the
/// next status tick the published snapshot(s) plus the recorder must account for every datagram.
fn population_history(out: &mut Out, rng: &mut Rng) {
    let mut cfg = HConfig::new(&rng.bytes(32));
    cfg.client_stats = true;
    cfg.queue_cap = 2;
    cfg.status_interval = std::time::Duration::from_secs(20); // status timer every 2 s
    let Ok(mut srv) = crate::inproc::Inproc::start(cfg) else {
        out.inconclusive("server start failed");
        return;
    };
    let port = srv.addr.port();
    let total: u32 = 20_000;
    let base = u32::from_be_bytes([127, 2, 0, 0]) + (rng.below(200) as u32) * 65_536;
    let t0 = std::time::Instant::now();
    let mut sent = 0u64;
    let mut off = 0u32;
    while off < total {
        let n = 150.min(total - off);
        sent += crate::c18::send_from_many_sources(port, base + off, n);
        off += n;
        if srv.step(1).is_err() {
            out.inconclusive("server died in the population history");
            return;
        }
    }
    // everything received?
    let mut got = 0u64;
    for _ in 0..50 {
        let _ = srv.step(1);
        got = srv.stats().map(|s| s.valid + s.invalid).unwrap_or(0);
        let mut queued = 0u64;
        // (nothing should have been published yet if the traffic fitted into one interval)
        if got + queued >= sent {
            break;
        }
        queued += 0;
    }
    let fitted = t0.elapsed() < std::time::Duration::from_millis(1800);
    // wait for the status tick that publishes the table
    let t1 = std::time::Instant::now();
    let mut published = 0u64;
    let mut snapshots = 0;
    while t1.elapsed() < std::time::Duration::from_secs(5) {
        let _ = srv.step(1);
        while let Some(snap) = srv.queue.pop() {
            snapshots += 1;
            for c in snap {
                published += (c.invalid_requests + c.rfc_requests + c.classic_requests) as u64;
            }
        }
        if published > 0 && srv.stats().map(|s| s.valid + s.invalid).unwrap_or(1) == 0 {
            break;
        }
        std::thread::sleep(std::time::Duration::from_millis(20));
    }
    let left = srv.stats().map(|s| s.valid + s.invalid).unwrap_or(0);
    out.case(fnv64(&base.to_le_bytes()) ^ 0x9090, true);
    out.obs("population_histories", 1);
    out.obs("population_datagrams", sent as i64);
    if got < sent || !fitted {
        out.inconclusive("population history: datagrams lost before the server or traffic did not fit into one interval");
        return;
    }
    out.obs("population_snapshots_popped", snapshots);
    if published + left != sent {
        out.violation(
            "C17 server-recorder differs-from-traffic large-population",
            &format!("{} datagrams from {} distinct addresses within one status interval: the published snapshot(s) ({} queue entries popped) hold {} events and the recorder {} - {} are unaccounted for", sent, sent, snapshots, published, left, sent as i64 - (published + left) as i64),
            json!({"kind":"population","addresses":sent}),
        );
    }
}

pub fn run(ctx: &Ctx, out: &mut Out, prop: &str) {
    let mut rng = ctx.rng(&format!("srv-{}", prop));
    crate::inproc::install_shard_logger(ctx.shard, out);
    if let Some(r) = &ctx.replay {
        replay_history(out, prop, r);
        return;
    }
    if prop == "C02" {
        crate::c02::run(ctx, out, &mut rng);
        return;
    }
    let n = match prop {
        "C17" => ctx.share(800, 16_000),
        _ => ctx.share(2_400, 48_000),
    };
    for i in 0..n {
        history(ctx, out, &mut rng, prop, i * ctx.nshards + ctx.shard);
        if !ctx.time_left() {
            out.note("history loop cut by wall budget");
            break;
        }
    }
    if prop == "C17" {
        if ctx.shard % 4 == 0 {
            population_history(out, &mut rng);
        }
        out.floor("population_histories", 1);
        out.floor("stats_snapshots_compared", 200);
        out.floor("stats_upper_bound_checks", 10);
        out.floor("stats_timer_ticks_awaited", 50);
        out.floor("stats_snapshots_popped_from_queue", 10);
    } else {
        out.floor("histories_ge3_sockets", 100);
        out.floor("replies_verified", 2_000);
        out.floor("datagrams_must_not_answer", 500);
        out.floor("batches_ge2_classic", 20);
        out.floor("batches_ge2_ietf", 20);
        out.floor("duplicate_nonce_requests", 50);
    }
}

pub fn replay_history(out: &mut Out, prop: &str, r: &serde_json::Value) {
    out.case(1, true);
    out.case(2, true);
    let seed = crate::prng::unhex(r["seed"].as_str().unwrap_or("")).unwrap_or_else(|| vec![7; 32]);
    let mut cfg = HConfig::new(&seed);
    cfg.batch_size = r["batch_size"].as_u64().unwrap_or(64) as u8;
    cfg.fault_percentage = r["fault_percentage"].as_u64().unwrap_or(0) as u8;
    cfg.client_stats = r["client_stats"].as_bool().unwrap_or(false);
    let mut d = Driver::new(cfg.clone(), 64).expect("server start");
    let mut rounds: Vec<Vec<(usize, Vec<u8>)>> = Vec::new();
    let mut tot = Totals::default();
    for rd in r["rounds"].as_array().cloned().unwrap_or_default() {
        let sends: Vec<(usize, Vec<u8>)> = rd.as_array().unwrap().iter().map(|x| (x[0].as_u64().map(|v| v as usize).unwrap_or(SPOOF_PORT0), crate::prng::unhex(x[1].as_str().unwrap()).unwrap())).collect();
        d.ensure_socks(sends.iter().filter(|s| s.0 != SPOOF_PORT0).map(|s| s.0 + 1).max().unwrap_or(1));
        rounds.push(sends.clone());
        let round = d.round(sends, true);
        let rp = || round_replay(&cfg, &rounds);
        if let Some(p) = &round.panic {
            out.violation(&format!("{} server-panic {}", prop, crate::c05::panic_site(p)), p, rp());
            return;
        }
        if cfg.fault_percentage == 0 {
            check_exactly_once(out, prop, &round, &rp);
            check_batches(out, prop, &round, cfg.batch_size, &rp);
        }
        crate::c07::check_round(out, prop, &round, &rp);
        tot.add(&round);
        if prop == "C17" {
            check_stats(out, &mut d, &mut tot, &rp);
        }
    }
}
