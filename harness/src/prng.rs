//! Seeded PRNG (SplitMix64 seeding a xoshiro256**). No dependency on `rand`, so the
//! harness' random choices are reproducible from VERIF_SEED alone.

#[derive(Clone, Debug)]
pub struct Rng {
    s: [u64; 4],
}

fn splitmix(x: &mut u64) -> u64 {
    *x = x.wrapping_add(0x9E3779B97F4A7C15);
    let mut z = *x;
    z = (z ^ (z >> 30)).wrapping_mul(0xBF58476D1CE4E5B9);
    z = (z ^ (z >> 27)).wrapping_mul(0x94D049BB133111EB);
    z ^ (z >> 31)
}

impl Rng {
    pub fn new(seed: u64) -> Self {
        let mut x = seed;
        let s = [splitmix(&mut x), splitmix(&mut x), splitmix(&mut x), splitmix(&mut x)];
        Rng { s }
    }

    /// Independent stream derived from (seed, label, index)
    pub fn derive(seed: u64, label: &str, idx: u64) -> Self {
        let mut h: u64 = seed ^ 0xcbf29ce484222325;
        for b in label.bytes() {
            h = (h ^ b as u64).wrapping_mul(0x100000001b3);
        }
        h ^= idx.wrapping_mul(0x9E3779B97F4A7C15);
        Rng::new(h)
    }

    pub fn next_u64(&mut self) -> u64 {
        let r = self.s[1].wrapping_mul(5).rotate_left(7).wrapping_mul(9);
        let t = self.s[1] << 17;
        self.s[2] ^= self.s[0];
        self.s[3] ^= self.s[1];
        self.s[1] ^= self.s[2];
        self.s[0] ^= self.s[3];
        self.s[2] ^= t;
        self.s[3] = self.s[3].rotate_left(45);
        r
    }

    pub fn next_u32(&mut self) -> u32 {
        (self.next_u64() >> 32) as u32
    }

    /// uniform in 0..n (n > 0)
    pub fn below(&mut self, n: u64) -> u64 {
        debug_assert!(n > 0);
        // multiply-shift; bias negligible for our n
        ((self.next_u64() as u128 * n as u128) >> 64) as u64
    }

    pub fn range(&mut self, lo: u64, hi_incl: u64) -> u64 {
        lo + self.below(hi_incl - lo + 1)
    }

    pub fn usize_below(&mut self, n: usize) -> usize {
        self.below(n as u64) as usize
    }

    pub fn chance(&mut self, num: u64, den: u64) -> bool {
        self.below(den) < num
    }

    pub fn fill(&mut self, buf: &mut [u8]) {
        for chunk in buf.chunks_mut(8) {
            let v = self.next_u64().to_le_bytes();
            chunk.copy_from_slice(&v[..chunk.len()]);
        }
    }

    pub fn bytes(&mut self, n: usize) -> Vec<u8> {
        let mut v = vec![0u8; n];
        self.fill(&mut v);
        v
    }

    /// random bytes of a random length in lo..=hi
    pub fn rbytes(&mut self, lo: usize, hi: usize) -> Vec<u8> {
        let n = self.range(lo as u64, hi as u64) as usize;
        self.bytes(n)
    }

    pub fn pick<'a, T>(&mut self, xs: &'a [T]) -> &'a T {
        &xs[self.usize_below(xs.len())]
    }

    pub fn shuffle<T>(&mut self, xs: &mut [T]) {
        for i in (1..xs.len()).rev() {
            let j = self.usize_below(i + 1);
            xs.swap(i, j);
        }
    }
}

pub fn fnv64(data: &[u8]) -> u64 {
    let mut h: u64 = 0xcbf29ce484222325;
    for b in data {
        h = (h ^ *b as u64).wrapping_mul(0x100000001b3);
    }
    h
}

pub fn hex(b: &[u8]) -> String {
    let mut s = String::with_capacity(b.len() * 2);
    for x in b {
        s.push_str(&format!("{:02x}", x));
    }
    s
}

pub fn unhex(s: &str) -> Option<Vec<u8>> {
    if s.len() % 2 != 0 {
        return None;
    }
    (0..s.len() / 2).map(|i| u8::from_str_radix(&s[2 * i..2 * i + 2], 16).ok()).collect()
}
